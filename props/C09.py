"""C09 Parsing is a pure function of input, context and flags."""
from vlib.driver import Cond
from vlib.common import Violation, require, fail
from vlib.oracles import parse, dump
from vlib.ctx import make_ctx_s, clear_parser_cache
from vlib.parsefam import skel_pre, skel_fill, BS
from pylatexenc.latexwalker import LatexWalkerParseError, LatexWalker, get_default_latex_context_db
from pylatexenc.latexnodes.parsers import LatexGeneralNodesParser

ID = 'C09'
TITLE = 'Parsing is a pure function of input, context and flags'


def run(s, ctx, tolerant):
    try:
        nl = parse(s, ctx, tolerant=tolerant)
    except LatexWalkerParseError as e:
        return ('ERR', e.pos, e.msg)
    except Violation:
        raise
    except Exception as e:
        return ('EXC', type(e).__name__)
    return dump(nl)


def _argsig(spec):
    out = []
    for a in (getattr(spec, 'arguments_spec_list', None) or []):
        p = getattr(a, 'parser', a)
        out.append((p if isinstance(p, str) else type(p).__name__, getattr(a, 'argname', None)))
    return out


def snapshot(db):
    """categories, names and argument signatures of a context database (attribute values only: repr()/id() of objects
    make CrossHair discard the path with a failed deferred assumption)"""
    out = []
    for c in db.categories():
        out.append((c,
                    [(m.macroname, _argsig(m)) for m in db.iter_macro_specs([c])],
                    [(e.environmentname, _argsig(e)) for e in db.iter_environment_specs([c])],
                    [x.specials_chars for x in db.iter_specials_specs([c])]))
    return (out, db.unknown_macro_spec is None, db.unknown_environment_spec is None, db.frozen)


def body_hist(s1, s2, tol1, tol2, third=None):
    """reference: s2 parsed with fresh objects and empty parser caches ("fresh interpreter");
    history: same context object and warm caches after parsing s1 (and optionally a third document)."""
    ref = run(s2, make_ctx_s(True), tol2)
    ctx = make_ctx_s(True)           # also empties the process-wide standard-argument-parser cache
    before = None
    run(s1, ctx, tol1)
    before = snapshot(ctx)
    if third is not None:
        run(third, ctx, not tol1)
    got = run(s2, ctx, tol2)
    require(got == ref, 'the same input parses differently after other inputs were parsed with the same objects')
    require(snapshot(ctx) == before, 'parsing modified the context database')
    return isinstance(ref, list) and len(ref) > 3


def make_ctx_ext():
    """a context that is itself derived with extended_with(None) and has an environment X whose body extends the
    context at parse time (macro \\i[ defined inside the body only)"""
    from pylatexenc.macrospec import (MacroSpec, EnvironmentSpec, ParsingStateDeltaExtendLatexContextDb,
                                      LatexEnvironmentBodyContentsParser)
    base = make_ctx_s(True)
    base.add_context_category('X', environments=[EnvironmentSpec(
        'X', make_body_parser=lambda token, nodeargd, arg_parsing_state_delta: LatexEnvironmentBodyContentsParser(
            'X', contents_parsing_state_delta=ParsingStateDeltaExtendLatexContextDb(
                extend_latex_context=dict(macros=[MacroSpec('i', '[')]))))])
    base.freeze()
    return base.extended_with(None, macros=[MacroSpec('y', '{')])


class _LazyStdArg(object):
    """custom argument parser that obtains a standard parser with options through the public cache function"""

    def contents_can_be_empty(self):
        return True

    def parse(self, latex_walker, token_reader, parsing_state, **kwargs):
        from pylatexenc.latexnodes.parsers import get_standard_argument_parser
        return get_standard_argument_parser('[', allow_pre_space=False).parse(
            latex_walker=latex_walker, token_reader=token_reader, parsing_state=parsing_state, **kwargs)


def make_ctx_other():
    from pylatexenc.macrospec import LatexContextDb, MacroSpec
    from pylatexenc.latexnodes import LatexArgumentSpec
    db = LatexContextDb()
    db.add_context_category('o', macros=[MacroSpec('k', arguments_spec_list=[LatexArgumentSpec(_LazyStdArg())])])
    return db


def body_hist_ext(s1, s2):
    ref = run(s2, make_ctx_ext(), False)
    ctx = make_ctx_ext()
    before = snapshot(ctx)
    run(s1, ctx, True)
    got = run(s2, ctx, False)
    require(got == ref, 'the same input parses differently after a document that extends the context while parsing')
    require(snapshot(ctx) == before, 'parsing modified the context database it was given')
    return isinstance(ref, list)


def body_hist_other_ctx(s1, s2):
    """first parse with an unrelated context whose argument parser uses get_standard_argument_parser with options"""
    ref = run(s2, make_ctx_s(True), False)
    ctx = make_ctx_s(True)
    run(s1, make_ctx_other(), True)
    got = run(s2, ctx, False)
    require(got == ref, 'the same input parses differently after an unrelated parse used the shared argument-parser cache')
    return isinstance(ref, list)


def body_default_ctx(s1, s2):
    """the same with the shared default context (spec objects shared by every walker)."""
    clear_parser_cache()
    ref = run(s2, None, False)
    run(s1, None, True)
    got = run(s2, None, False)
    require(got == ref, 'default context: the same input parses differently after another input was parsed')
    return isinstance(ref, list)


def one_hole(sk):
    """keep only the first hole free"""
    out, seen = '', False
    for ch in sk:
        if ch == '?' and seen:
            out += 'x'
        else:
            out += ch
            seen = seen or ch == '?'
    return out


def two_pre(sk1, sk2, quick=True):
    if quick:
        # quick tier: the symbolic dimension is the history (one free character in the first document);
        # the second document is a fixed probe
        sk1 = one_hole(sk1)
        sk2 = sk2.replace('?', 'x')
    return skel_pre(sk1, 's1') + skel_pre(sk2, 's2')


PAIRS = [
    ('verb_depth', BS + 'v{??', BS + 'v{?}?'),
    ('verb_bar', BS + 'v|?', BS + 'v|?|?'),
    ('verb_then_arg', BS + 'v??', BS + 'a{?}?'),
    ('opt_then_opt', BS + 'b[?', BS + 'b[?]{?}'),
    ('star', BS + 'c?', BS + 'e*[?]{?}'),
    ('env', BS + 'begin{F}[?', BS + 'begin{F}[?]{?}' + BS + 'end{F}'),
    ('math', '$?' + BS + 't{?', '$?$' + BS + 't{$?$}'),
    ('r_paren', BS + 'r(?', BS + 'r(?)?'),
    ('q_angle', BS + 'q<?', BS + 'q<?>' + BS + 'q?'),
    ('envV', BS + 'begin{V}?', BS + 'begin{V}?' + BS + 'end{V}'),
    ('nl', BS + BS + '*[?', BS + BS + '?[?]'),
    ('plus', BS + 'p?', BS + 'p+?'),
    ('unk_env', BS + 'begin{zz}?' + BS + 'end{zz}', BS + 'begin{yy}?' + BS + 'end{yy}'),
    ('unk_macro', BS + 'zz{?}', BS + 'yy[?]'),
]


def conditions(tier):
    quick = tier == 'quick'
    T = 400 if quick else 3600
    conds = []
    P = 's1: str, s2: str'
    for nm, a, b in PAIRS:
        for t1, t2 in ([(True, False)] if quick else [(True, False), (False, False), (True, True)]):
            conds.append(Cond('hist_%s_%s%s' % (nm, 't' if t1 else 's', 't' if t2 else 's'), P, two_pre(a, b, quick),
                              'body_hist(s1, s2, %r, %r)' % (t1, t2), timeout=T, cost=2, twin=False,
                              smoke=[dict(s1=skel_fill(a, c), s2=skel_fill(b, d)) for c in 'x{}' for d in 'x}'],
                              descr='history: %r then %r (? = any character)' % (a, one_hole(b) if quick else b)))
    n = 1 if quick else 2
    conds.append(Cond('hist_free_%d' % n, P, ['len(s1) <= %d' % n, 'len(s2) <= %d' % n], 'body_hist(s1, s2, True, False)',
                      timeout=T, twin=False, smoke=[dict(s1=BS + 'v', s2='{'), dict(s1='$', s2='}')]))
    conds.append(Cond('hist_three', P, two_pre(BS + 'v{?', BS + 'v{?}'), "body_hist(s1, s2, True, False, '" + BS + BS + "v{{{')",
                      timeout=T, twin=False, smoke=[dict(s1=BS + 'v{{', s2=BS + 'v{x}')]))
    conds.append(Cond('hist_ext', P, two_pre(BS + 'begin{X}' + BS + 'i[?]?' + BS + 'end{X}', BS + 'i[?]?' + BS + 'y{?}'),
                      'body_hist_ext(s1, s2)', timeout=T, cost=2, twin=False,
                      smoke=[dict(s1=BS + 'begin{X}' + BS + 'i[a]b' + BS + 'end{X}', s2=BS + 'i[a]b' + BS + 'y{c}')]))
    for i, s2c in enumerate([BS + 'b [a]{b}', BS + 'e* [a] {b}', BS + 'f{a} [b]*']):
        conds.append(Cond('hist_other_ctx_%d' % i, 's1: str', skel_pre(BS + 'k[?]?', 's1'), 'body_hist_other_ctx(s1, %r)' % s2c,
                          timeout=T, cost=2, twin=False, smoke=[dict(s1=BS + 'k[a]b')],
                          descr='first parse %r with an unrelated context using get_standard_argument_parser with options, '
                                'then %r' % (BS + 'k[?]?', s2c)))
    for nm, a, b in [('d_verb', BS + 'verb|?', BS + 'verb|?|?'), ('d_item', BS + 'item[?', BS + 'item[?] ?'),
                     ('d_frac', BS + 'frac?', BS + 'frac??'), ('d_lst', BS + 'begin{lstlisting}[?', BS + 'begin{lstlisting}[?]x' + BS + 'end{lstlisting}')]:
        conds.append(Cond('default_' + nm, P, two_pre(a, b, quick), 'body_default_ctx(s1, s2)', timeout=T, cost=2, twin=False,
                          smoke=[dict(s1=skel_fill(a), s2=skel_fill(b))]))
    return conds


META = dict(
    functions=['parsers._stdarg.get_standard_argument_parser / _std_arg_parser_instances (process-wide cache)',
               'LatexStandardArgumentParser._arg_parser (cached inner parser)', 'LatexDelimitedVerbatimParser (per-parse state)',
               'LatexDelimitedGroupParser / LatexOptionalCharsMarkerParser / LatexExpressionParser instances shared through the cache',
               'LatexContextDb.freeze, spec objects of the compact and of the default context', 'LatexWalker.parse_content'],
    bounds=dict(quick='histories of two parses (tolerant, then strict) sharing one context database and the warm standard-argument-parser '
                      'cache, over 12 pairs of skeletons exercising every standard argument type (first document typically left '
                      'unterminated), one free character in the first document, the second being a fixed probe document; all pairs of free strings of length <= 1; one three-call history; 4 '
                      'pairs on the shared default context; each compared with fresh objects + emptied caches',
                thorough='three strict/tolerant combinations per pair; free strings <= 3 / <= 2'),
    stubs=['logging disabled', 'step budget', '"fresh interpreter" = freshly built context and spec objects and an emptied '
           '_std_arg_parser_instances cache inside the same process'],
    outside=['histories longer than three calls', 'other threads', 'state outside pylatexenc (none is used)'],
)
