"""C02 Parsing recovers the structure a well-formed document was written with."""
from vlib.driver import Cond
from vlib.common import Violation, require, fail
from vlib.oracles import parse, is_list
from vlib.parsefam import get_ctx, BS
from pylatexenc.latexwalker import LatexWalkerParseError
from pylatexenc.latexnodes import nodes as N

ID = 'C02'
TITLE = 'Parsing recovers the structure a well-formed document was written with'

# skeleton alphabet:  § content hole (ASCII letter or digit)   ¶ whitespace hole (any str.isspace() character)
#                     ‡ continuation hole (any character that is not LaTeX-active, not a letter, not whitespace)
ACTIVE = BS + '{}$%&#^_~[]*+<>()|-`\'"'


class H(object):
    """reference to the k-th hole of the skeleton"""

    def __init__(self, k):
        self.k = k


def G(o, c, *children):
    return ('group', o, c, list(children))


def CH(*parts):
    return ('chars', list(parts))


def M(name, *args):
    return ('macro', name, list(args))


def E(name, args, *body):
    return ('env', name, list(args), list(body))


def MATH(o, c, kind, *body):
    return ('math', o, c, kind, list(body))


def SP(chars):
    return ('specials', chars)


def CM(*parts):
    return ('comment', list(parts))


# (name, skeleton, expected top-level structure (continuation hole, if any, is appended automatically as chars))
FAMILIES = [
    ('a_group', BS + 'a¶{§}‡', [M('a', G('{', '}', CH(H(1))))]),
    ('a_token', BS + 'a¶§‡', [M('a', CH(H(1)))]),
    ('a_token_letters', BS + 'a¶§§', [M('a', CH(H(1))), CH(H(2))]),
    ('a_macro_token', BS + 'a¶' + BS + 'd‡', [M('a', M('d'))]),
    ('b_full', BS + 'b¶[§]¶{§}‡', [M('b', G('[', ']', CH(H(1))), G('{', '}', CH(H(3))))]),
    ('b_noopt', BS + 'b¶{§}‡', [M('b', None, G('{', '}', CH(H(1))))]),
    ('b_opt_token', BS + 'b[§]¶§‡', [M('b', G('[', ']', CH(H(0))), CH(H(2)))]),
    ('b_opt_then_bracket', BS + 'b[§]{§}[§]', [M('b', G('[', ']', CH(H(0))), G('{', '}', CH(H(1)))), CH('[', H(2), ']')]),
    ('c_star', BS + 'c¶*‡', [M('c', CH('*'))]),
    ('c_nostar', BS + 'c‡', [M('c', None)]),
    ('c_double_star', BS + 'c**§', [M('c', CH('*')), CH('*', H(0))]),
    ('p_double_plus', BS + 'p++§', [M('p', CH('+')), CH('+', H(0))]),
    ('c_star_eof', '§' + BS + 'c*', [CH(H(0)), M('c', CH('*'))]),
    ('e_full', BS + 'e*¶[§]¶{§}‡', [M('e', CH('*'), G('[', ']', CH(H(1))), G('{', '}', CH(H(3))))]),
    ('e_nostar', BS + 'e¶[§]¶{§}', [M('e', None, G('[', ']', CH(H(1))), G('{', '}', CH(H(3))))]),
    ('e_star_noopt', BS + 'e*¶{§}‡', [M('e', CH('*'), None, G('{', '}', CH(H(1))))]),
    ('e_none', BS + 'e¶{§}‡', [M('e', None, None, G('{', '}', CH(H(1))))]),
    ('f_mos', BS + 'f{§}¶[§]¶*‡', [M('f', G('{', '}', CH(H(0))), G('[', ']', CH(H(2))), CH('*'))]),
    ('f_m', BS + 'f{§}‡', [M('f', G('{', '}', CH(H(0))), None, None)]),
    ('g_groups', BS + 'g{§}¶{§}‡', [M('g', G('{', '}', CH(H(0))), G('{', '}', CH(H(2))))]),
    ('g_tokens', BS + 'g¶§§‡', [M('g', CH(H(1)), CH(H(2)))]),
    ('g_mixed', BS + 'g{§}¶§‡', [M('g', G('{', '}', CH(H(0))), CH(H(2)))]),
    ('p_plus', BS + 'p¶+‡', [M('p', CH('+'))]),
    ('p_absent', BS + 'p‡', [M('p', None)]),
    ('r_paren', BS + 'r¶(§)‡', [M('r', G('(', ')', CH(H(1))))]),
    ('q_angle', BS + 'q¶<§>‡', [M('q', G('<', '>', CH(H(1))))]),
    ('q_absent', BS + 'q‡', [M('q', None)]),
    ('h_darg_after_space', BS + 'h{§}¶<§>‡', [M('h', G('{', '}', CH(H(0))), G('<', '>', CH(H(2))))]),
    ('h_darg_absent', BS + 'h{§}¶§', [M('h', G('{', '}', CH(H(0))), None), CH(H(2))]),
    ('v_nested', BS + 'v{§{§}§}‡', [M('v', G('{', '}', CH(H(0), '{', H(1), '}', H(2))))]),
    ('v_nested_paren', BS + 'v(§(§))‡', [M('v', G('(', ')', CH(H(0), '(', H(1), ')')))]),
    ('quote_single', "§'§`§", [CH(H(0)), SP("'"), CH(H(1)), SP('`'), CH(H(2))]),
    ('v_bar', BS + 'v|§' + BS + '{|‡', [M('v', G('|', '|', CH(H(0), BS, '{')))]),
    ('v_brace', BS + 'v{§%$}‡', [M('v', G('{', '}', CH(H(0), '%$')))]),
    ('nl_full', BS + BS + '*[§]‡', [M(BS, CH('*'), G('[', ']', CH(H(0))))]),
    ('nl_space_bracket', '§' + BS + BS + '¶[§]', [CH(H(0)), M(BS, None, None), CH('[', H(2), ']')]),
    ('nl_bare', BS + BS + '§', [M(BS, None, None), CH(H(0))]),
    ('t_text_in_math', '$' + BS + 't{§$§$}$‡', [MATH('$', '$', 'inline', M('t', G('{', '}', CH(H(0)), MATH('$', '$', 'inline', CH(H(1))))))]),
    ('m_math_arg', BS + 'm{§}‡', [M('m', G('{', '}', CH(H(0))))]),
    ('env_E', BS + 'begin{E}§' + BS + 'end{E}‡', [E('E', [], CH(H(0)))]),
    ('env_E_empty', BS + 'begin{E}' + BS + 'end{E}§', [E('E', []), CH(H(0))]),
    ('env_F_full', BS + 'begin{F}¶[§]¶{§}§' + BS + 'end{F}', [E('F', [G('[', ']', CH(H(1))), G('{', '}', CH(H(3)))], CH(H(4)))]),
    ('env_F_noopt', BS + 'begin{F}¶{§}§' + BS + 'end{F}', [E('F', [None, G('{', '}', CH(H(1)))], CH(H(2)))]),
    ('env_M', BS + 'begin{M}§' + BS + 'end{M}‡', [E('M', [], CH(H(0)))]),
    ('env_V', BS + 'begin{V}§' + BS + 'a{%' + BS + 'end{V}‡', [E('V', [], CH(H(0), BS, 'a{%'))]),
    ('env_nested', BS + 'begin{E}' + BS + 'begin{F}{§}' + BS + 'end{F}§' + BS + 'end{E}',
     [E('E', [], E('F', [None, G('{', '}', CH(H(0)))]), CH(H(1)))]),
    ('math_inline', '$§$‡', [MATH('$', '$', 'inline', CH(H(0)))]),
    ('math_display', '$$§$$‡', [MATH('$$', '$$', 'display', CH(H(0)))]),
    ('math_paren', BS + '(§' + BS + ')‡', [MATH(BS + '(', BS + ')', 'inline', CH(H(0)))]),
    ('math_brack', BS + '[§' + BS + ']‡', [MATH(BS + '[', BS + ']', 'display', CH(H(0)))]),
    ('math_adjacent', '$§$$§$', [MATH('$', '$', 'inline', CH(H(0))), MATH('$', '$', 'inline', CH(H(1)))]),
    ('math_dd_d', '$$§$$$§$', [MATH('$$', '$$', 'display', CH(H(0))), MATH('$', '$', 'inline', CH(H(1)))]),
    ('math_d_dd', '$§$$$§$$', [MATH('$', '$', 'inline', CH(H(0))), MATH('$$', '$$', 'display', CH(H(1)))]),
    ('comment', '§%§{\n§', [CH(H(0)), CM(H(1), '{'), CH(H(2))]),
    ('comment_eof', '§%§', [CH(H(0)), CM(H(1))]),
    ('comment_macro_arg', BS + 'a%§\n{§}‡', [M('a', G('{', '}', CH(H(1))))]),
    ('comment_between_args', BS + 'g{§}%§\n{§}', [M('g', G('{', '}', CH(H(0))), G('{', '}', CH(H(2))))]),
    ('dash2', '§--§', [CH(H(0)), SP('--'), CH(H(1))]),
    ('dash3', '§---§', [CH(H(0)), SP('---'), CH(H(1))]),
    ('dash4', '§----§', [CH(H(0)), SP('---'), CH('-', H(1))]),
    ('tie_amp', '§~§&§', [CH(H(0)), SP('~'), CH(H(1)), SP('&'), CH(H(2))]),
    ('quotes', "``§''", [SP('``'), CH(H(0)), SP("''")]),
    ('par', '§\n\n§', [CH(H(0)), SP('\n\n'), CH(H(1))]),
    ('par_sp', '§\n¶\n§', [CH(H(0)), SP('\n\n'), CH(H(2))]),
    ('group', '{§}‡', [G('{', '}', CH(H(0)))]),
    ('group_nested', '{§{§}}§', [G('{', '}', CH(H(0)), G('{', '}', CH(H(1)))), CH(H(2))]),
    ('nest_optgrp', BS + 'b[{§]§}]{§}', [M('b', G('[', ']', G('{', '}', CH(H(0), ']', H(1)))), G('{', '}', CH(H(2))))]),
    ('nest_optopt', BS + 'b[§[§]]{§}', [M('b', G('[', ']', CH(H(0)), G('[', ']', CH(H(1)))), G('{', '}', CH(H(2))))]),
    ('nest_macro_in_opt', BS + 'b[' + BS + 'a{§}]{§}', [M('b', G('[', ']', M('a', G('{', '}', CH(H(0))))), G('{', '}', CH(H(1))))]),
    ('nest_macro_in_group', '{' + BS + 'a{§}§}', [G('{', '}', M('a', G('{', '}', CH(H(0)))), CH(H(1)))]),
    ('nest_arg_macro', BS + 'a{' + BS + 'b[§]{§}}', [M('a', G('{', '}', M('b', G('[', ']', CH(H(0))), G('{', '}', CH(H(1))))))]),
    ('unknown_macro', BS + 'zz¶{§}', None),
]
# unknown macro/environment with the fallback context: macro without arguments, the group is a separate node
UNKNOWN = [('unknown_macro', BS + 'zz{§}‡', [M('zz'), G('{', '}', CH(H(0)))]),
           ('unknown_env', BS + 'begin{zz}§' + BS + 'end{zz}', [E('zz', [], CH(H(0)))])]


def resolve(x, s, holes):
    """substitute hole references in an expected structure by the characters of s"""
    if x is None:
        return None
    if isinstance(x, H):
        return s[holes[x.k]]
    if isinstance(x, str):
        return x
    if isinstance(x, list):
        return [resolve(y, s, holes) for y in x]
    if isinstance(x, tuple):
        if x[0] in ('chars', 'comment'):
            return (x[0], ''.join(resolve(p, s, holes) for p in x[1]))
        return tuple(resolve(y, s, holes) for y in x)
    return x


def norm_list(items):
    """drop whitespace-only chars, strip chars text, merge nothing"""
    out = []
    for it in items:
        if it is not None and it[0] == 'chars':
            t = it[1].strip()
            if t == '':
                continue
            out.append(('chars', t))
        else:
            out.append(it)
    return out


def struct(n):
    if n is None:
        return None
    if is_list(n):
        return norm_list([struct(x) for x in n])
    if isinstance(n, N.LatexCharsNode):
        return ('chars', n.chars)
    if isinstance(n, N.LatexCommentNode):
        return ('comment', n.comment)
    if isinstance(n, N.LatexGroupNode):
        return ('group', n.delimiters[0], n.delimiters[1], struct(n.nodelist))
    if isinstance(n, N.LatexMacroNode):
        args = n.nodeargd.argnlist if n.nodeargd is not None and n.nodeargd.argnlist is not None else []
        return ('macro', n.macroname, [arg_struct(a) for a in args])
    if isinstance(n, N.LatexEnvironmentNode):
        args = n.nodeargd.argnlist if n.nodeargd is not None and n.nodeargd.argnlist is not None else []
        return ('env', n.environmentname, [arg_struct(a) for a in args], struct(n.nodelist))
    if isinstance(n, N.LatexSpecialsNode):
        return ('specials', n.specials_chars)
    if isinstance(n, N.LatexMathNode):
        return ('math', n.delimiters[0], n.delimiters[1], n.displaytype, struct(n.nodelist))
    return ('?', type(n).__name__)


def arg_struct(a):
    if a is None:
        return None
    if is_list(a):
        items = [x for x in a]
        if len(items) == 1:
            return arg_struct(items[0])     # an argument given as a one-element node list
        return ('list', struct(a))
    st = struct(a)
    if st[0] == 'chars':
        return ('chars', st[1].strip())
    return st


def norm_expected(x):
    if isinstance(x, list):
        return norm_list([norm_expected(y) for y in x])
    if isinstance(x, tuple) and x and x[0] in ('group',):
        return ('group', x[1], x[2], norm_expected(x[3]))
    if isinstance(x, tuple) and x and x[0] == 'macro':
        return ('macro', x[1], [norm_arg(a) for a in x[2]])
    if isinstance(x, tuple) and x and x[0] == 'env':
        return ('env', x[1], [norm_arg(a) for a in x[2]], norm_expected(x[3]))
    if isinstance(x, tuple) and x and x[0] == 'math':
        return ('math', x[1], x[2], x[3], norm_expected(x[4]))
    return x


def norm_arg(a):
    if a is None:
        return None
    a = norm_expected(a)
    if a[0] == 'chars':
        return ('chars', a[1].strip())
    return a


FAM = {}


def hole_positions(sk):
    return [i for i, ch in enumerate(sk) if ch in '§¶‡']


def register(name, sk, exp):
    FAM[name] = (sk, exp, hole_positions(sk))


REQUIRE_WS = ('a_token', 'a_token_letters', 'g_tokens', 'nl_space_bracket', 'a_macro_token')


def variants(sk):
    """present/absent variants of the whitespace holes: all present, all absent, each one alone"""
    ws = [i for i, ch in enumerate(sk) if ch == '¶']
    if not ws:
        return [('', sk, None)]
    out = [('w', sk, None), ('n', sk, set(ws))]
    if len(ws) > 1:
        for k, i in enumerate(ws):
            out.append(('w%d' % k, sk, set(ws) - {i}))
    return out


def body_struct(s, fam, absent, ctxs):
    """s instantiates the skeleton of family `fam` with the whitespace holes listed in `absent` (indices in the
    full skeleton) removed.  The hole table is recomputed for the reduced skeleton."""
    sk, exp, _ = FAM[fam]
    # map hole ordinal -> index in s
    holes = {}
    k = 0
    j = 0
    for i, ch in enumerate(sk):
        removed = absent is not None and i in absent
        if ch in '§¶‡':
            holes[k] = None if removed else j
            k += 1
        if not removed:
            j += 1
    # continuation hole (if any) -> extra trailing chars
    expected = list(exp)
    for i, ch in enumerate(sk):
        if ch == '‡':
            ordinal = [p for p, c in enumerate(sk) if c in '§¶‡'].index(i) if False else None
    cont_ord = None
    o = 0
    for i, ch in enumerate(sk):
        if ch in '§¶‡':
            if ch == '‡':
                cont_ord = o
            o += 1
    if cont_ord is not None:
        expected = expected + [CH(H(cont_ord))]
    want = norm_expected(resolve(expected, s, holes))
    ok = 0
    for ctxname in ctxs:
        try:
            nl = parse(s, get_ctx(ctxname), tolerant=False)
        except LatexWalkerParseError as e:
            fail('well-formed document of family %s was rejected' % fam)
        except Violation:
            raise
        except Exception as e:
            fail('well-formed document raised %s' % type(e).__name__)
        got = struct(nl)
        require(got == want, 'parsed structure differs from the structure the document was written with (%s)' % fam)
        ok += 1
    return ok >= 1


def cond_pre(sk, absent, max_content=None):
    pre = []
    j = 0
    ws_idx = []
    ncontent = 0
    for i, ch in enumerate(sk):
        if absent is not None and i in absent:
            continue
        if ch == '§':
            ncontent += 1
            if max_content is not None and ncontent > max_content:
                pre.append('s[%d] == chr(120)' % j)     # quick tier: further content holes pinned to the letter x
                j += 1
                continue
            pre.append('(48 <= ord(s[%d]) < 58 or 65 <= ord(s[%d]) < 91 or 97 <= ord(s[%d]) < 123)' % (j, j, j))
        elif ch == '¶':
            pre.append('s[%d].isspace()' % j)
            ws_idx.append(j)
        elif ch == '‡':
            pre.append('not s[%d].isspace() and not s[%d].isalpha()' % (j, j))
            for a in ACTIVE:
                pre.append('s[%d] != chr(%d)' % (j, ord(a)))
        else:
            pre.append('s[%d] == chr(%d)' % (j, ord(ch)))
        j += 1
    if len(ws_idx) >= 2:
        pre.append('sum(1 for k in %r if s[k] == chr(10)) <= 1' % (tuple(ws_idx),))
    # a whitespace hole adjacent to a pinned newline must not create a paragraph break, except in the par family
    return ['len(s) == %d' % j] + pre


def fill(sk, absent):
    out = ''
    for i, ch in enumerate(sk):
        if absent is not None and i in absent:
            continue
        out += {'§': 'x', '¶': ' ', '‡': '.'}.get(ch, ch)
    return out


for _n, _sk, _e in FAMILIES:
    if _e is not None:
        register(_n, _sk, _e)
for _n, _sk, _e in UNKNOWN:
    register('U_' + _n, _sk, _e)


def conditions(tier):
    quick = tier == 'quick'
    T = 900 if quick else 3600
    conds = []
    for name, (sk, exp, hp) in FAM.items():
        unknown = name.startswith('U_')
        ctxs = ('SU',) if unknown else ('S', 'SU')
        if quick and not unknown:
            # quick: one context per family (the fallback context for every fourth family)
            ctxs = ('SU',) if (len(conds) % 4 == 0) else ('S',)
        vs = variants(sk)
        if quick:
            vs = vs[:2]
        for tag, _, absent in vs:
            if (name == 'par_sp' or name in REQUIRE_WS) and absent:
                continue
            nws = sum(1 for i, ch in enumerate(sk) if ch == '¶' and not (absent and i in absent))
            pre = cond_pre(sk, absent, (1 if nws >= 2 else 2) if quick else None)
            if name == 'par_sp':
                pre = [p for p in pre if not p.startswith('sum(')] + ['s[2] != chr(10)']
            conds.append(Cond('fam_%s%s' % (name, ('_' + tag) if tag else ''), 's: str', pre,
                              'body_struct(s, %r, %r, %r)' % (name, sorted(absent) if absent else None, ctxs),
                              timeout=T, cost=len(sk) / 10.0, twin=False,
                              smoke=[dict(s=fill(sk, absent))],
                              descr='skeleton %r' % sk))
    return conds


def decode_args(args):
    return args


META = dict(
    functions=['LatexNodesCollector.process_one_token/parse_invocable_token_type', 'LatexArgumentsParser.parse',
               'LatexStandardArgumentParser.get_arg_parser_instance (all of *, [, {, m, o, s, t<c>, r<c1c2>, d<c1c2>, v)',
               'LatexDelimitedGroupParser(Info), LatexExpressionParser, LatexOptionalCharsMarkerParser, LatexDelimitedVerbatimParser, '
               'LatexMathParser, LatexEnvironmentBodyContentsParser, LatexVerbatimEnvironmentContentsParser, LatexMacroCallParser, '
               'LatexEnvironmentCallParser, LatexSpecialsCallParser', 'LatexTokenReader.impl_read_environment/'
               'impl_maybe_read_math_mode_delimiter', 'LatexContextDb.test_for_specials (longest match)'],
    bounds=dict(quick='66 document families (one per argument signature and construct: macro calls with star / optional / mandatory '
                      'arguments as groups and single tokens, environments with arguments, the four math delimiters singly and adjacent, '
                      'comments incl. between macro and argument, specials with longest match, paragraph breaks, verbatim, depth-2 '
                      'nestings, unknown macro/environment with fallback); content holes = any ASCII letter or digit (the first two per document free, the first one when two or more whitespace '
                      'holes are present; the others pinned to x), whitespace holes = any '
                      'str.isspace() character (all present / all absent), continuation hole = any non-active character; under the '
                      'compact context (every fourth family under the variant with unknown-macro fallback)',
                thorough='every family under both contexts; additionally each whitespace hole present alone'),
    stubs=['logging disabled', 'step budget'],
    outside=['derivations other than the listed families', 'holes longer than one character', 'the default context (covered by C07/C10 '
             'only for totality and math mode)'],
    assumptions=['the skeleton is the specification: the expected structure is written next to each skeleton in props/C02.py; '
                 'comparison ignores positions, whitespace-only character nodes and leading/trailing whitespace of character nodes',
                 'LaTeX exceptions encoded in the preconditions: at most one newline among the whitespace holes of a document; '
                 'no optional argument after whitespace for the line-break macro'],
)
