"""C18 Node-list splitting and key-value parsing are order-preserving partitions."""
import re
from vlib.driver import Cond
from vlib.common import Violation, require, fail
from vlib.oracles import parse
from vlib.parsefam import get_ctx, skel_pre, skel_fill, BS
from pylatexenc.latexwalker import LatexWalkerParseError
from pylatexenc.latexnodes import nodes as N

ID = 'C18'
TITLE = 'Node-list splitting and key-value parsing are order-preserving partitions'

RX_COMMA = re.compile(',')


def sep_callable(chars, pos):
    i = chars.find(';', pos)
    if i < 0:
        return None
    return (i, i + 1)


SEPS = {'comma': (',', ','), 'commasp': (', ', ', '), 'rx': (RX_COMMA, ','), 'call': (sep_callable, ';')}


def get_list(s):
    try:
        return parse(s, get_ctx('Ssmall'), tolerant=False)
    except LatexWalkerParseError:
        return None
    except Violation:
        raise
    except Exception:
        return None


def ref_split(s, nl, sep, max_split):
    """Reference (keep_empty=True semantics): split the text of chars nodes only; returns list of parts, each a list of
    atoms ('c', pos, pos_end) or ('n', node)."""
    parts = [[]]
    nsplit = 0
    for n in nl:
        if n is None:
            continue
        if isinstance(n, N.LatexCharsNode):
            start = n.pos
            i = n.pos
            end = n.pos_end
            while True:
                j = -1
                if max_split is None or nsplit < max_split:
                    j = s.find(sep, i, end)
                if j < 0:
                    break
                if j > start:
                    parts[-1].append(('c', start, j))
                parts.append([])
                nsplit += 1
                i = j + len(sep)
                start = i
            if end > start:
                parts[-1].append(('c', start, end))
        else:
            parts[-1].append(('n', n))
    return parts


def check_parts(s, got, exp, nl_pos_end):
    require(len(got) == len(exp), 'number of parts differs from splitting the text of the character nodes at the separator')
    for g, e in zip(got, exp):
        items = [x for x in g]
        require(len(items) == len(e), 'a part holds a different number of nodes than expected')
        for x, a in zip(items, e):
            if a[0] == 'n':
                require(x is a[1], 'a non-character node was not kept as the original object (separator inside a child split?)')
            else:
                require(isinstance(x, N.LatexCharsNode), 'expected a characters node in this part')
                require(x.pos == a[1] and x.pos_end == a[2], 'returned characters node carries the wrong source position')
                require(x.chars == s[a[1]:a[2]], 'returned characters node text differs from the source slice at its position')
        if e:
            p0 = e[0][1] if e[0][0] == 'c' else e[0][1].pos
            p1 = e[-1][2] if e[-1][0] == 'c' else e[-1][1].pos_end
            require(g.pos == p0, 'part start position is wrong')
            require(g.pos_end is not None and p1 <= g.pos_end <= nl_pos_end, 'part end position is wrong')


def body_split_all(s, sepname):
    """one parse, then every combination of keep_empty x max_split in {None,0,1,2}"""
    nl = get_list(s)
    if nl is None or len(nl) == 0:
        return False
    r = False
    for keep_empty in (True, False):
        for ms in (-1, 0, 1, 2):
            if body_split(s, sepname, keep_empty, ms, nl):
                r = True
    return r


def body_split(s, sepname, keep_empty, ms, nl=None):
    """ms: -1 -> None"""
    if nl is None:
        nl = get_list(s)
    if nl is None or len(nl) == 0:
        return False
    sep_obj, sep_txt = SEPS[sepname]
    max_split = None if ms < 0 else ms
    try:
        got = nl.split_at_chars(sep_obj, max_split=max_split, keep_empty=keep_empty)
    except Violation:
        raise
    except Exception as e:
        fail('split_at_chars raised %s' % type(e).__name__)
    exp = ref_split(s, nl, sep_txt, max_split)
    if keep_empty:
        if max_split is None:
            check_parts(s, got, exp, nl.pos_end)
        else:
            # the statement fixes an upper bound on the number of splits, not the exact number
            require(len(got) - 1 <= max_split, 'more than max_split splits were performed')
            for g in got[:-1]:
                for x in g:
                    if isinstance(x, N.LatexCharsNode):
                        require(x.chars.find(sep_txt) < 0, 'a separator was left unsplit in a part other than the last one')
            originals = [n for n in nl if n is not None and not isinstance(n, N.LatexCharsNode)]
            kept = [x for g in got for x in g if x is not None and not isinstance(x, N.LatexCharsNode)]
            require(len(kept) == len(originals) and all(a is b for a, b in zip(kept, originals)),
                    'non-character nodes are not the original objects in order')
            for g in got:
                for x in g:
                    if isinstance(x, N.LatexCharsNode):
                        require(x.chars == s[x.pos:x.pos_end], 'returned characters node text differs from its source slice')
        # joined with the separators, the parts reproduce the source text of the list
        txt = sep_txt.join(''.join(x.latex_verbatim() for x in g if x is not None) for g in got)
        require(txt == s[nl.pos:nl.pos_end], 'parts joined with the separator do not reproduce the source')
    elif max_split is None:
        check_parts(s, got, [e for e in exp if e], nl.pos_end)
    else:
        require(len(got) <= max_split + 1, 'more than max_split+1 parts were returned')
        for g in got:
            require(len(g) > 0, 'an empty part was returned although keep_empty is False')
            for x in g:
                if isinstance(x, N.LatexCharsNode):
                    require(x.chars == s[x.pos:x.pos_end], 'returned characters node text differs from its source slice')
    return len(exp) >= 2


def body_split_node(s, ms):
    """split_at_node with a node predicate (group nodes as separators)."""
    nl = get_list(s)
    if nl is None or len(nl) == 0:
        return False
    max_split = None if ms < 0 else ms
    pred = lambda n: isinstance(n, N.LatexGroupNode)
    got = nl.split_at_node(pred, max_split=max_split)
    orig = [n for n in nl if n is not None]
    k = 0
    for pi, g in enumerate(got):
        if pi > 0:
            require(k < len(orig) and pred(orig[k]), 'split_at_node: parts are not separated by exactly one separator node')
            k += 1
        for x in g:
            require(k < len(orig) and x is orig[k], 'split_at_node: parts are not the original nodes in order')
            k += 1
    require(k == len(orig), 'split_at_node: nodes were lost')
    if max_split is not None:
        require(len(got) - 1 <= max_split, 'split_at_node: more than max_split splits')
    else:
        require(not any(pred(x) for g in got for x in g), 'split_at_node: a separator node was left inside a part')
    return len(got) >= 2


KV_TEMPLATES = {
    # name: (skeleton, [(key positions, value positions or None)])  -- positions index into s
    'two': ('?=1,?=2', [((0,), (2,)), ((4,), (6,))]),
    'rep': ('a=?,a=?', [((0,), (2,)), ((4,), (6,))]),
    'noval': ('?,?=1', [((0,), None), ((2,), (4,))]),
    'eqeq': ('?=?=1', [((0,), (2, 3, 4))]),
    'three': ('?=1,b=2,?=3', [((0,), (2,)), ((4,), (6,)), ((8,), (10,))]),
    'braced': ('a={?,x},a=?', [((0,), (3, 4, 5)), ((8,), (10,))]),
}


def body_none_items(s, sepname):
    """lists containing None placeholders (as produced for absent optional arguments): skip_none=False keeps them in place"""
    nl = get_list(s)
    if nl is None or len(nl) < 1:
        return False
    items = list(nl)
    withnone = N.LatexNodeList(items[:1] + [None] + items[1:] + [None], parsing_state=nl.parsing_state,
                               latex_walker=nl.latex_walker)
    sep_obj, sep_txt = SEPS[sepname]
    for skip in (False, True):
        parts = withnone.split_at_chars(sep_obj, keep_empty=True, skip_none=skip)
        flat = [x for g in parts for x in g]
        nn = len([x for x in flat if x is None])
        require(nn == (0 if skip else 2), 'split_at_chars: None placeholders are kept exactly when skip_none is False')
        parts2 = withnone.split_at_node(lambda n: isinstance(n, N.LatexGroupNode), skip_none=skip)
        flat2 = [x for g in parts2 for x in g]
        nn2 = len([x for x in flat2 if x is None])
        require(nn2 == (0 if skip else 2), 'split_at_node: None placeholders are kept exactly when skip_none is False')
        kept = [x for x in flat2 if x is not None]
        orig = [x for x in items if not isinstance(x, N.LatexGroupNode)]
        require(len(kept) == len(orig) and all(a is b for a, b in zip(kept, orig)), 'split_at_node: nodes lost or reordered')
    return True


def body_keyval(s, policy, tname):
    """agree with 'split at commas, then at the first equals sign'; the expectation is computed from the template
    (the separators are pinned), not by re-splitting the string."""
    nl = get_list(s)
    if nl is None:
        return False
    sk, pairs = KV_TEMPLATES[tname]
    exp_err = False
    exp = []            # list of [key, value-or-None]
    for kpos, vpos in pairs:
        k = ''.join(s[i] for i in kpos)
        v = None if vpos is None else ''.join(s[i] for i in vpos)
        hit = None
        for e in exp:
            if e[0] == k:
                hit = e
        if hit is None:
            exp.append([k, v])
        elif policy == 'error':
            exp_err = True
            break
        elif policy == 'first':
            pass
        elif policy == 'last':
            hit[1] = v
        else:
            hit[1] = (hit[1] or '') + (v or '')
    try:
        got = nl.parse_keyval_content(repeated_key_aggregate_action=policy, default_value_nodelist=None)
    except ValueError:
        require(exp_err, 'ValueError raised although no key is repeated under policy error')
        return True
    except Violation:
        raise
    except Exception as e:
        fail('parse_keyval_content raised %s' % type(e).__name__)
    require(not exp_err, 'repeated key under policy error did not raise ValueError')
    # parsing must not modify the list: a second call gives the same answer and the source tree is unchanged
    before = ''.join(x.latex_verbatim() for x in nl if x is not None)
    got_again = nl.parse_keyval_content(repeated_key_aggregate_action=policy, default_value_nodelist=None)
    require(list(got_again.keys()) == list(got.keys()), 'second parse_keyval_content call returns different keys')
    for kk in got:
        require(''.join(x.latex_verbatim() for x in got_again[kk] if x is not None) ==
                ''.join(x.latex_verbatim() for x in got[kk] if x is not None),
                'second parse_keyval_content call returns different values (the first call modified the list)')
    got = got_again
    keys = list(got.keys())
    require(len(keys) == len(exp), 'number of keys differs from splitting at commas and at the first equals sign')
    for (k, v), gk in zip(exp, keys):
        require(gk == k, 'keys differ from splitting at commas and at the first equals sign')
        txt = ''.join(x.latex_verbatim() for x in got[gk] if x is not None)
        require(txt == (v or ''), 'value of a key differs from the text after the first equals sign (policy %s)' % policy)
    return len(exp) >= 1


def alnum_pre(sk):
    pre = ['len(s) == %d' % len(sk)]
    for i, ch in enumerate(sk):
        if ch == '?':
            pre.append('(48 <= ord(s[%d]) < 58 or 97 <= ord(s[%d]) < 123)' % (i, i))
        else:
            pre.append('s[%d] == chr(%d)' % (i, ord(ch)))
    return pre


def conditions(tier):
    quick = tier == 'quick'
    T = 600 if quick else 3000
    conds = []
    P = 's: str'
    SM = [dict(s=x) for x in ('a,b', ',a,,b,', 'a{,}b,c', 'a, b', ',', 'a;b;;')]
    for sn in SEPS:
        conds.append(Cond('split_%s_le2' % sn, P, ['len(s) <= 2'], 'body_split_all(s, %r)' % sn, timeout=T,
                          smoke=SM, twin=False))
    skels = [('mid', '?,?,x'), ('mid2', 'x,?,?'), ('edges', ',?,'), ('double', '?,,?'), ('group', '?{,}x,?'), ('macro', BS + 'a{,},?'),
             ('comment', '?%,\n,?'), ('sp', '?, ?,x'), ('lead', ',,?'), ('callsep', '?;?;')]
    for nm, sk in skels:
        for sn in (['comma', 'rx'] if nm != 'callsep' else ['call']) + (['commasp'] if nm == 'sp' else []):
            conds.append(Cond('split_%s_%s' % (sn, nm), P, skel_pre(sk), 'body_split_all(s, %r)' % sn,
                              timeout=T, cost=2, twin=False, smoke=[dict(s=skel_fill(sk))]))
    if not quick:
        for sn in SEPS:
            conds.append(Cond('split_%s_eq3' % sn, P, ['len(s) == 3'], 'body_split_all(s, %r)' % sn,
                              timeout=T * 2, cost=4, twin=False))
    for m in (-1, 0, 1, 2):
        conds.append(Cond('splitnode_ms%d' % (m + 1), 's: str', skel_pre('?{x}?{}x'), 'body_split_node(s, %d)' % m, timeout=T,
                          smoke=[dict(s='a{x}c{}x')], twin=False))
    for sn, sk in (('comma', 'x{,}?,x'), ('comma', '?,?')):
        conds.append(Cond('none_items_%d' % len(sk), 's: str', skel_pre(sk), 'body_none_items(s, %r)' % sn, timeout=T, twin=False,
                          smoke=[dict(s=skel_fill(sk))]))
    for pol in ('concatenate', 'first', 'last', 'error'):
        for nm, (sk, _) in KV_TEMPLATES.items():
            conds.append(Cond('keyval_%s_%s' % (pol, nm), 's: str', alnum_pre(sk), 'body_keyval(s, %r, %r)' % (pol, nm), timeout=T,
                              smoke=[dict(s=sk.replace('?', 'a')), dict(s=sk.replace('?', 'b', 1).replace('?', 'a'))],
                              twin=False))
    return conds


META = dict(
    functions=['LatexNodeList.split_at_chars (string, compiled regex and callable separators; max_split; keep_empty)',
               'LatexNodeList.split_at_node', 'LatexNodeList.parse_keyval_content / get_content_as_chars',
               'strict parser under a compact context (produces the node lists)'],
    bounds=dict(quick='node lists parsed from every Unicode string of length <= 2 and from 9 skeletons (separators leading, trailing, '
                      'doubled, inside a group, inside a macro argument, inside a comment) with free holes; every combination of keep_empty and '
                      'max_split in {None,0,1,2}; 4 separator kinds; key-value templates with alphanumeric holes x 4 '
                      'repeated-key policies',
                thorough='plus every string of length 3 for each separator kind'),
    stubs=['logging disabled', 'step budget'],
    outside=['keep_empty=False combined with max_split is only checked for sanity (part count, non-empty parts, source slices): '
             'the code counts kept parts rather than separators, which the statement does not settle',
             'empty keys / empty values in key-value content', 'regular expressions other than a literal comma'],
)
