"""C12 latex2text content filters: comments, math modes, discards."""
from vlib.driver import Cond
from vlib.common import Violation, BudgetExceeded, require, fail
from vlib.oracles import StepBudget
from vlib.ctx import clear_parser_cache
from pylatexenc.latex2text import LatexNodes2Text
from pylatexenc.latexwalker import LatexWalker
from pylatexenc.latexnodes.parsers import LatexGeneralNodesParser

ID = 'C12'
TITLE = 'latex2text content filters: comments, math modes, discards'

BS = '\\'
MATH_MODES = ('text', 'with-delimiters', 'verbatim', 'remove')
# templates: '?' = free hole (any character that is not LaTeX-active), markers are the words QC. (comment),
# QM. (formula), QD. (discarded construct).  spans: (kind, marker, construct_start, construct_end, opening, closing)
ACTIVE = BS + '{}$%&#^_~[]' + 'Q'      # 'Q': holes must not be able to spell a marker word (markers start with Q)


def T(name, text, inside_math_comment=False):
    spans = []
    i = 0
    # constructs are written between « » so that their source span is known from the template itself
    clean = ''
    stack = []
    for ch in text:
        if ch == '«':
            stack.append(len(clean))
        elif ch == '»':
            a = stack.pop()
            spans.append((a, len(clean)))
        else:
            clean += ch
    out = []
    for a, b in spans:
        src = clean[a:b]
        if src.startswith('%'):
            out.append(('comment', src[1:4], a, b, None, None))
        elif src.startswith('$$'):
            out.append(('math', src[2:5], a, b, '$$', '$$'))
        elif src.startswith('$'):
            out.append(('math', src[1:4], a, b, '$', '$'))
        elif src.startswith(BS + '['):
            out.append(('math', src[2:5], a, b, BS + '[', BS + ']'))
        elif src.startswith(BS + '('):
            out.append(('math', src[2:5], a, b, BS + '(', BS + ')'))
        elif src.startswith(BS + 'begin{equation}'):
            out.append(('math', src[16:19], a, b, BS + 'begin{equation}', BS + 'end{equation}'))
        else:
            k = src.index('QD')
            out.append(('discard', src[k:k + 3], a, b, None, None))
    return (name, clean, out, inside_math_comment)


TEMPLATES = [
    T('c_top', '?«%QC1?»\n?'),
    T('c_eof', '?«%QC1?»'),
    T('c_arg', BS + 'textbf{?«%QC1?»\n?}?'),
    T('c_optarg', BS + 'item[?«%QC1»\n?] ?'),
    T('c_macro_arg', BS + 'textbf«%QC1?»\n{x}?'),
    T('c_macro_arg2', BS + 'frac{a}«%QC1»\n?{b}'),
    T('c_env', BS + 'begin{itemize}' + BS + 'item ?«%QC1»\n?' + BS + 'end{itemize}'),
    T('c_after_macro', BS + 'alpha«%QC1?»\n?'),
    T('c_after_macro_sp', BS + 'alpha ?«%QC1»\n\n?'),
    T('c_group', '{?«%QC1»\n?}«%QC2»'),
    T('c_in_math', '$a«%QC1?»\nb$?', inside_math_comment=True),
    T('c_two', '«%QC1»\n?«%QC2»\n'),
    T('m_inline', '?«$QM1$»?'),
    T('m_display', '?«' + BS + '[QM1' + BS + ']»?'),
    T('m_dd', '?«$$QM1$$»?'),
    T('m_paren', '?«' + BS + '(QM1' + BS + ')»?'),
    T('m_env', '?«' + BS + 'begin{equation}QM1' + BS + 'end{equation}»?'),
    T('m_arg', BS + 'textbf{?«$QM1$»?}'),
    T('m_two', '«$QM1$»?«$QM2$»'),
    T('m_envbody', BS + 'begin{itemize}' + BS + 'item ?«$QM1$»?' + BS + 'end{itemize}'),
    T('m_group', '{?«' + BS + '[QM1' + BS + ']»}?'),
    T('m_display_multi', '?«' + BS + '[QM1?QM2' + BS + ']»?'),
    T('m_dd_multi', '«$$QM1?QM2$$»?'),
    T('d_hspace', '?«' + BS + 'hspace{QD1}»?«' + BS + 'vspace*{QD2}»'),
    T('d_label', '?«' + BS + 'label{QD1}»?'),
    T('d_docclass', '«' + BS + 'documentclass[QD1]{QD2}»?'),
    T('d_usepkg', '?«' + BS + 'usepackage{QD1}»?'),
    T('d_newcommand', '?«' + BS + 'newcommand{' + BS + 'x}[1]{QD1}»?'),
    T('d_setlength', '?«' + BS + 'setlength{QD1}{QD2}»?'),
    T('d_in_arg', BS + 'textbf{?«' + BS + 'label{QD1}»?}'),
    T('mix', '«%QC1»\n«$QM1$»?«' + BS + 'label{QD1}»'),
]
TDICT = dict((t[0], t) for t in TEMPLATES)


def warmup():
    LatexNodes2Text().latex_to_text('a $b$ %c\n \\label{x}')


def render_all(s, fills=(None,), sps=(False, True), combos=None):
    """parse once (as latex_to_text does), render under every option set"""
    clear_parser_cache()
    outs = {}
    try:
        with StepBudget(len(s)):
            outs[('lt',)] = LatexNodes2Text().latex_to_text(s)
            lw = LatexWalker(s, tolerant_parsing=True)
            nl, _ = lw.parse_content(LatexGeneralNodesParser())
    except BudgetExceeded:
        fail('latex_to_text did not terminate')
    except Violation:
        raise
    except Exception as e:
        fail('latex_to_text raised %s' % type(e).__name__)
    for mm in MATH_MODES:
        for kc in (False, True):
            if combos is not None and (mm, kc) not in combos and not (mm == 'text' and not kc):
                continue
            for sp in sps:
                for ft in fills:
                    try:
                        outs[(mm, kc, sp, ft)] = LatexNodes2Text(math_mode=mm, keep_comments=kc, strict_latex_spaces=sp,
                                                                 fill_text=ft).nodelist_to_text(nl)
                    except Violation:
                        raise
                    except Exception as e:
                        fail('nodelist_to_text raised %s under an option set' % type(e).__name__)
    if None in fills:
        if False in sps:
            require(outs[('lt',)] == outs[('text', False, False, None)], 'latex_to_text differs from parse + nodelist_to_text')
    return outs


def body_filter_skipkept(s, tname, skip_kept_comment=False, fills=(None,), sps=(False, True), combos=None):
    """variant used for the known finding C12-comment-before-argument: everything but the clause 'the comment appears
    under keep_comments=True' is still asserted"""
    return body_filter(s, tname, True, fills, sps, combos)


def has_in_order(out, a, b, c):
    i = out.find(a)
    if i < 0:
        return False
    j = out.find(b, i + len(a))
    if j < 0:
        return False
    return out.find(c, j + len(b)) >= 0


def body_filter(s, tname, skip_kept_comment=False, fills=(None,), sps=(False, True), combos=None):
    """skip_kept_comment: do not require the comment to appear under keep_comments=True (known finding C12-comment-
    before-argument); absence without keep_comments and all other clauses are still checked."""
    name, clean, spans, inside_math_comment = TDICT[tname]
    outs = render_all(s, fills, sps, combos)
    for (mm, kc, sp, ft), out in [(k, v) for k, v in outs.items() if len(k) == 4]:
        for kind, marker, a, b, d0, d1 in spans:
            if kind == 'comment':
                if inside_math_comment:
                    if mm == 'remove':
                        require(marker not in out, 'comment text inside a removed formula appears in the output')
                    elif mm != 'verbatim':
                        require((marker in out) == kc, 'comment inside a formula: presence differs from keep_comments')
                    continue
                if kc:
                    if not skip_kept_comment:
                        require(marker in out, 'keep_comments is set but a comment does not appear in the output')
                else:
                    require(marker not in out, 'comment text appears in the output although keep_comments is not set')
            elif kind == 'math':
                if mm == 'remove':
                    require(marker not in out, "math_mode='remove' but formula content appears")
                elif mm == 'verbatim':
                    if ft is None:
                        require(s[a:b] in out, "math_mode='verbatim' but the formula source does not appear unchanged")
                    else:
                        require(marker in out, "math_mode='verbatim' (fill_text) but the formula content does not appear")
                elif mm == 'with-delimiters':
                    require(has_in_order(out, d0, marker, d1), "math_mode='with-delimiters' but the formula lost its delimiters")
                else:
                    require(marker in out, "math_mode='text' but the formula content does not appear")
            else:
                require(marker not in out, 'content of a construct declared as discarded appears in the output')
    return True


def body_legacy_fn(s, tname):
    """the deprecated module-level latex2text() function with its keep_comments / keep_inline_math flags"""
    import warnings
    from pylatexenc import latex2text as L2T
    name, clean, spans, imc = TDICT[tname]
    for kc in (False, True):
        for kim in (False, True):
            try:
                with warnings.catch_warnings():
                    warnings.simplefilter('ignore')
                    with StepBudget(len(s)):
                        out = L2T.latex2text(s, keep_inline_math=kim, keep_comments=kc)
            except BudgetExceeded:
                fail('latex2text() did not terminate')
            except Violation:
                raise
            except Exception as e:
                fail('latex2text() raised %s' % type(e).__name__)
            for kind, marker, a, b, d0, d1 in spans:
                if kind == 'comment':
                    require((marker in out) == kc, 'latex2text(): comment presence differs from keep_comments')
                elif kind == 'math' and kim:
                    require(s[a:b] in out, 'latex2text(keep_inline_math=True): formula source does not appear unchanged')
                elif kind == 'math':
                    require(marker in out, 'latex2text(): formula content does not appear')
    return True


def tpl_pre(clean):
    pre = ['len(s) == %d' % len(clean)]
    for i, ch in enumerate(clean):
        if ch == '?':
            for a in ACTIVE:
                pre.append('s[%d] != chr(%d)' % (i, ord(a)))
        else:
            pre.append('s[%d] == chr(%d)' % (i, ord(ch)))
    return pre


def conditions(tier):
    quick = tier == 'quick'
    T_ = 900 if quick else 3600
    conds = []
    for k, (name, clean, spans, imc) in enumerate(TEMPLATES):
        call = 'body_filter(s, %r)' % name
        if quick:
            # one whitespace policy per template (alternating) in the quick tier: 8 option sets per path instead of 16
            # and only the option sets the template's markers are sensitive to (each conversion costs ~1 s per path):
            # comment templates: keep_comments off/on under math_mode text (all math modes when the comment is inside a
            # formula); formula templates: the 4 math modes, keep_comments once; discard templates: two option sets
            if name.startswith('c_') and not imc:
                combos = (('text', False), ('text', True), ('remove', True))
            elif name.startswith('c_'):
                combos = tuple((mm, kc) for mm in MATH_MODES for kc in (False, True))
            elif name.startswith('m_') or name == 'mix':
                combos = tuple((mm, False) for mm in MATH_MODES) + (('verbatim', True),)
            else:
                combos = (('text', False), ('verbatim', True))
            call = 'body_filter(s, %r, False, (None,), (%r,), %r)' % (name, bool(k % 2), combos)
        extra = []
        if quick:
            # at most two free holes per template in the quick tier (one for the equation-environment template, whose paths
            # cost ~9 s each); the hole between a comment and the next argument of \\frac becomes that argument, and the
            # fraction is rendered with string formatting of the symbolic character (realised value by value), so that
            # hole ranges over {space, tab, x, .} only
            idx = [i for i, ch in enumerate(clean) if ch == '?']
            keep = 1 if name == 'm_env' else 2
            rot = k % max(1, len(idx))
            free = set((idx[rot:] + idx[:rot])[:keep])
            extra = ['s[%d] == chr(120)' % i for i in idx if i not in free]
            if name == 'c_macro_arg2':
                extra.append('any(s[%d] == chr(q) for q in (32, 9, 120, 46))' % idx[0])
            if name == 'm_env':
                # one free character next to an equation environment does not finish in 900 s (not analysed further):
                # the free hole ranges over {space, newline, x, .} in the quick tier
                extra += ['any(s[%d] == chr(q) for q in (32, 10, 120, 46))' % i for i in free]
        conds.append(Cond('tpl_' + name, 's: str', tpl_pre(clean) + extra, call, timeout=T_, cost=2, twin=False,
                          smoke=[dict(s=clean.replace('?', c)) for c in ('x', ' ', '\n', '.')],
                          descr='template %r (? = any character that is not one of %s); 32 option sets' % (clean, ACTIVE)))
    # fill_text re-wraps text with `re` and `textwrap`; CrossHair's model of re on symbolic strings is unfaithful (search
    # returns None), so the fill_text option is exercised concretely only and is not part of the symbolic claim
    for name, clean, spans, imc in TEMPLATES:
        if name.startswith('c_macro_arg'):
            continue
        conds.append(Cond('concrete_fill_' + name, 's: str', [], 'body_filter(s, %r, False, (30, 5))' % name, concrete_only=True,
                          twin=False, smoke=[dict(s=clean.replace('?', c)) for c in ('x', ' ', '\n', '.', '\t')]))
    for name in ('c_top', 'm_inline', 'mix'):
        clean = TDICT[name][1]
        conds.append(Cond('legacyfn_' + name, 's: str', tpl_pre(clean), 'body_legacy_fn(s, %r)' % name, timeout=T_, twin=False,
                          smoke=[dict(s=clean.replace('?', c)) for c in ('x', ' ')],
                          descr='deprecated module-level latex2text() on template %r' % clean))
    return conds


META = dict(
    functions=['LatexNodes2Text.latex_to_text/nodelist_to_text/comment_node_to_text/math_node_to_text/macro_node_to_text/'
               'environment_node_to_text/chars_node_to_text/do_fill_text/_fmt_indented_block', 'tolerant parser underneath'],
    bounds=dict(quick='31 templates placing comment, formula and discarded-construct markers at top level, inside arguments, optional '
                      'arguments, between macro and argument, in environment bodies, groups, inside math, after bare macros and at end of '
                      'input without newline, each with 1-2 free holes (further holes pinned to x) ranging over every character that is not LaTeX-active (the hole that becomes an argument of \\frac: space, tab, x or .; the hole next to an equation environment: space, newline, x or .); every '
                      'template rendered under the option sets its markers are sensitive to (comment templates: keep_comments off/on; formula '
                      'templates: the 4 math modes; discarded constructs: 2 option sets; comments inside formulas: all 8) under one of the two '
                      'whitespace policies (alternating); fill_text concretely only',
                thorough='all 4 math modes x keep_comments x both whitespace policies for every template (16 option sets)'),
    stubs=['logging disabled', 'step budget'],
    outside=['fill_text on symbolic input (do_fill_text uses re/textwrap, which CrossHair models unfaithfully): run concretely on 5 fillings per template',
             'holes that are LaTeX-active characters (they change which construct the marker belongs to)',
             "comments inside a formula under math_mode='verbatim' (the two clauses of the statement conflict there)",
             'exact source slice under verbatim + fill_text (re-wrapping); only the presence of the content is required',
             'documents other than the templates'],
)
