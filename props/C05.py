"""C05 Strict mode rejects unbalanced markup and fails only with a located parse error."""
from vlib.driver import Cond, ord_partition
from vlib.common import Violation, require, fail
from vlib.oracles import parse
from vlib.parsefam import get_ctx, skel_pre, skel_fill, SKELETONS_S, SKELETONS_D, BS, hole_variants
from pylatexenc.latexwalker import LatexWalkerParseError
from props.C20 import ref_line_col

ID = 'C05'
TITLE = 'Strict mode rejects unbalanced markup and fails only with a located parse error'


def check_located(s, e):
    pos = e.pos
    require(isinstance(pos, int) and not isinstance(pos, bool), 'parse error without an integer position')
    require(0 <= pos <= len(s), 'parse error position outside the input')
    exp = ref_line_col(s, pos, 1, 0, 0)
    require((e.lineno, e.colno) == exp, 'parse error line/column do not match its position')


def strict_outcome(s, ctxname):
    """'ok' or 'err' (located LatexWalkerParseError); anything else is a violation."""
    ctx = get_ctx(ctxname)
    try:
        parse(s, ctx, tolerant=False)
    except LatexWalkerParseError as e:
        check_located(s, e)
        return 'err'
    except Violation:
        raise
    except Exception as e:
        fail('strict parse raised %s instead of LatexWalkerParseError' % type(e).__name__)
    return 'ok'


def body_total(s, ctxname):
    return strict_outcome(s, ctxname) == 'err'


FAULT_CHARS = '{}$'

_SK = dict((n, k) for n, k in SKELETONS_S + SKELETONS_D)


FULL = dict((n, k.replace('?', 'x')) for n, k in _SK.items())


def is_trunc(s, skname):
    """s = a proper or improper prefix of the filled skeleton, with its last character free."""
    f = FULL[skname]
    n = len(s)
    if n < 1 or n > len(f) + 1:
        return False
    for i in range(n - 1):
        if s[i] != f[i]:
            return False
    return True


def body_trunc(s, ctxname):
    return strict_outcome(s, ctxname) == 'err'


def body_fault(s, ctxname, i):
    """s = well-formed skeleton with one extra character at index i; if that character is an unmatched
    brace or math shift, the document must be rejected."""
    out = strict_outcome(s, ctxname)
    c = s[i]
    if c == '{' or c == '}' or c == '$':
        require(out == 'err', 'document with a single unmatched %r added was accepted' % c)
        return True
    return False


def body_fault_fixed(s, ctxname):
    """s = well-formed skeleton + one pinned multi-character fault token: must be rejected."""
    out = strict_outcome(s, ctxname)
    require(out == 'err', 'document with a single unmatched structural token added was accepted')
    return True


# well-formed base documents for fault injection: '?' = plain hole (a digit), '|' = token boundary
# where a fault may be inserted (boundaries inside verbatim and comments are not marked).
FAULT_BASES = [
    ('text', '|?|?|'),
    ('a_arg', '|' + BS + 'a|{|?|}|?|'),
    ('b_full', '|' + BS + 'b|[|?|]|{|?|}|'),
    ('e_full', '|' + BS + 'e|*|[|?|]|{|?|}|'),
    ('g_toks', '|' + BS + 'g |?|?|'),
    ('r_paren', '|' + BS + 'r|(|?|)|'),
    ('v_bar', '|' + BS + 'v|+?+|?|'),
    ('env_E', '|' + BS + 'begin{E}|?|' + BS + 'end{E}|?|'),
    ('env_F', '|' + BS + 'begin{F}|[|?|]|{|?|}|?|' + BS + 'end{F}|'),
    ('env_M', '|' + BS + 'begin{M}|?|' + BS + 'end{M}|'),
    ('env_V', '|' + BS + 'begin{V}?' + BS + 'end{V}|?|'),
    ('math_d', '|$|?|$|?|'),
    ('math_dd', '|$$|?|$$|?|'),
    ('math_p', '|' + BS + '(|?|' + BS + ')|' + BS + '[|?|' + BS + ']|'),
    ('group', '|{|?|{|?|}|}|?|'),
    ('comment', '|?|%?}{$\n|?|'),
    ('t_math', '|$|' + BS + 't|{|?|$|?|$|}|?|$|'),
    ('par', '|?|\n\n|?|'),
    ('nest', '|{|' + BS + 'b|[|{|?|]|}|]|{|?|}|}|'),
]
MULTI_FAULTS = [BS + '(', BS + ')', BS + '[', BS + ']', BS + 'begin{E}', BS + 'end{E}', '$$']


def fault_variants(base):
    """yield (k, skeleton_with_fault_hole '!', index_of_hole)."""
    segs = base.split('|')
    for k in range(len(segs) - 1):
        left = ''.join(segs[:k + 1])
        right = ''.join(segs[k + 1:])
        yield k, left + '!' + right, len(left)


def fault_pre(sk):
    pre = ['len(s) == %d' % len(sk)]
    for i, ch in enumerate(sk):
        if ch == '?':
            pre.append('48 <= ord(s[%d]) < 58' % i)
        elif ch != '!':
            pre.append('s[%d] == chr(%d)' % (i, ord(ch)))
    return pre


def conditions(tier):
    quick = tier == 'quick'
    conds = []
    T = 300 if quick else 3000
    # (1) totality + located errors on free strings
    for ctx, n in ([('S', 3), ('SU', 2), ('D', 2)] if quick else [('S', 4), ('SU', 4), ('D', 3)]):
        conds.append(Cond('total_%s_le%d' % (ctx, n - 1), 's: str', ['len(s) <= %d' % (n - 1)],
                          'body_total(s, %r)' % ctx, timeout=T,
                          smoke=[dict(s=x) for x in ('', '}', '{', BS, '$$', BS + 'a', BS + '(')]))
        cuts = (33, 36, 37, 92, 93, 123, 126) if n >= 3 else (36, 92, 93)
        for tag, pre in ord_partition('s', 0, cuts):
            conds.append(Cond('total_%s_eq%d_%s' % (ctx, n, tag), 's: str', ['len(s) == %d' % n, pre],
                              'body_total(s, %r)' % ctx, timeout=T * (1 if n < 4 else 4), cost=5,
                              twin=(tag not in ('p_eq37',))))
    # (2) totality on pinned skeletons with free holes
    sk_s = SKELETONS_S if not quick else [x for x in SKELETONS_S if x[0] in (
        'a_tok', 'b_sp', 'c_end', 'e_part', 'g_toks', 'q_absent', 'v_bar', 'v_brace', 'nl_opt', 'env_F2', 'env_V',
        'math_dd', 'nest_optgrp', 'cmt_arg', 't_math')]
    for ctxn, lst in (('S', sk_s), ('D', SKELETONS_D if not quick else SKELETONS_D[:4])):
        for nm, sk0 in lst:
            variants = hole_variants(sk0, 2)
            if quick:
                variants = hole_variants(sk0, 1)[:2]
            else:
                variants = variants + ([('full', sk0)] if len(variants) > 1 else [])
            for tag, sk in variants:
                conds.append(Cond('skel_%s_%s_%s' % (ctxn, nm, tag), 's: str', skel_pre(sk), "body_total(s, %r)" % ctxn,
                                  timeout=T, cost=3, twin=False,
                                  smoke=[dict(s=skel_fill(sk)), dict(s=skel_fill(sk, '}')), dict(s=skel_fill(sk, '$'))],
                                  descr='skeleton %r (? = any character)' % sk))
    # (2b) every truncation of the filled skeletons, followed by one free character (end-of-input handling)
    tr_s = SKELETONS_S if not quick else [x for x in SKELETONS_S if x[0] in (
        'b_full', 'r_paren', 'v_bar', 'nl_star', 'env_V', 'cmt_arg')]
    for ctxn, lst in (('S', tr_s), ('D', SKELETONS_D if not quick else [x for x in SKELETONS_D if x[0] not in ('d_env', 'd_align')])):
        for nm, sk0 in lst:
            conds.append(Cond('trunc_%s_%s' % (ctxn, nm), 's: str', ['is_trunc(s, %r)' % nm], 'body_trunc(s, %r)' % ctxn,
                              timeout=T, cost=4, smoke=[dict(s=sk0.replace('?', 'x')[:k]) for k in range(1, len(sk0))],
                              descr='all prefixes of %r, each also followed by one free character' % sk0.replace('?', 'x')))
    # (3) single structural fault at every token boundary of well-formed documents
    for nm, base in FAULT_BASES:
        for k, sk, idx in fault_variants(base):
            if quick and (k % 4 != (len(nm) % 4)):
                continue
            conds.append(Cond('fault_%s_b%d' % (nm, k), 's: str', fault_pre(sk), "body_fault(s, 'S', %d)" % idx,
                              timeout=T, smoke=[dict(s=sk.replace('?', '7').replace('!', c)) for c in '{}$x'],
                              descr='base %r, free character inserted at boundary %d' % (base, k)))
            if not quick and k % 3 == 0:
                for j, f in enumerate(MULTI_FAULTS):
                    fs = sk.replace('!', f)
                    pre = ['len(s) == %d' % len(fs)] + [
                        ('48 <= ord(s[%d]) < 58' % i) if ch == '?' else ('s[%d] == chr(%d)' % (i, ord(ch)))
                        for i, ch in enumerate(fs)]
                    conds.append(Cond('mfault_%s_b%d_f%d' % (nm, k, j), 's: str', pre, "body_fault_fixed(s, 'S')",
                                      timeout=T, twin=False, smoke=[dict(s=fs.replace('?', '7'))]))
    return conds


META = dict(
    functions=['LatexWalker.parse_content / _ParsingContext.__exit__', 'LatexGeneralNodesParser.parse',
               'LatexNodesCollector.process_tokens/process_one_token/parse_invocable_token_type',
               'LatexExpressionParser, LatexDelimitedGroupParser, LatexOptionalCharsMarkerParser, LatexDelimitedVerbatimParser, '
               'LatexMathParser, LatexMacroCallParser, LatexEnvironmentCallParser, LatexEnvironmentBodyContentsParser, '
               'LatexVerbatimEnvironmentContentsParser, LatexArgumentsParser, LatexStandardArgumentParser',
               'LatexTokenReader (all impl_* methods)', 'LineNumbersCalculator'],
    bounds=dict(quick='every Unicode string of length <= 3 under CTX_S, <= 2 under CTX_S+unknown fallbacks and the default '
                      'context; 19 pinned skeletons with 2-4 free one-character holes; a free character inserted at every '
                      'fourth token boundary of 19 well-formed base documents (holes = any digit)',
                thorough='length <= 4 (CTX_S, CTX_SU), <= 3 default context; all 51 skeletons; every token boundary of the 19 '
                         'base documents with a free character, every third boundary with each of 7 multi-character structural tokens'),
    stubs=['logging disabled', 'step budget on LatexTokenReader.peek_token (non-termination is reported as violation)'],
    outside=['documents outside the listed skeletons and longer than the free-string bound', 'random token soups',
             'fault injection into documents other than the 19 base documents'],
    assumptions=['the error position is checked against the oracle of C20 with default offsets'],
)
