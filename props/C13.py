"""C13 Encoded text is inert, strictly parseable LaTeX, ASCII-only when asked."""
from vlib.driver import Cond
from vlib.common import Violation, require, fail
from vlib.oracles import parse, node_children, is_list
from pylatexenc.latexencode import UnicodeToLatexEncoder, UnicodeToLatexConversionRule, RULE_DICT
from pylatexenc.latexencode import get_builtin_uni2latex_dict
from pylatexenc.latexencode import _uni2latexmap_xml
from pylatexenc.latexwalker import LatexWalkerParseError
from pylatexenc.latexnodes import nodes as N
from props.C04 import BisectMap, install_stubs

ID = 'C13'
TITLE = 'Encoded text is inert, strictly parseable LaTeX, ASCII-only when asked'

TABLES = {'defaults': dict(get_builtin_uni2latex_dict()), 'unicode-xml': dict(_uni2latexmap_xml.uni2latex)}
BISECT = {k: BisectMap(v) for k, v in TABLES.items()}
# data predicate: table characters whose own replacement text contains a math shift (allowed to produce a math node)
MATH_IN_REPL = {k: frozenset(o for o, v in t.items() if '$' in v.replace('\\$', '') or '\\(' in v or '\\[' in v)
                for k, t in TABLES.items()}
ACTIVE = '\\{}$&#^_~%'
REPS = 'a \n['


def warmup():
    install_stubs()


def count_kinds(n, acc):
    if n is None:
        return
    if is_list(n):
        for x in n:
            count_kinds(x, acc)
        return
    acc[type(n).__name__] = acc.get(type(n).__name__, 0) + 1
    for c in node_children(n):
        count_kinds(c, acc)


def make_enc(ruleset, scheme, policy, bisect=True):
    rules = [UnicodeToLatexConversionRule(RULE_DICT, BISECT[ruleset] if bisect else TABLES[ruleset])]
    return UnicodeToLatexEncoder(conversion_rules=rules, replacement_latex_protection=scheme,
                                 unknown_char_policy=policy, unknown_char_warning=False)


def in_passthrough(o):
    return (32 <= o <= 127) or o == 10 or o == 13 or o == 9


def body_inert(t, ruleset, scheme, policy):
    install_stubs()
    enc = make_enc(ruleset, scheme, policy)
    table = TABLES[ruleset]
    expect_fail = False
    math_ok = False
    for ch in t:
        o = ord(ch)
        has_rule = o in BISECT[ruleset]
        if not has_rule and not in_passthrough(o):
            expect_fail = True
        if has_rule and o in MATH_IN_REPL[ruleset]:
            math_ok = True
    try:
        out = enc.unicode_to_latex(t)
    except ValueError:
        require(policy == 'fail', 'ValueError under a policy other than fail')
        require(expect_fail, 'fail policy raised although every character has a rule or is passed through')
        return True
    except Violation:
        raise
    except Exception as e:
        fail('encoder raised %s' % type(e).__name__)
    if policy == 'fail':
        require(not expect_fail, 'fail policy did not raise for a character without rule outside the pass-through range')
    if policy in ('replace', 'ignore', 'unihex'):
        require(all(ord(c) < 128 for c in out), 'output is not pure ASCII under policy %s' % policy)
    try:
        nl = parse(out, None, tolerant=False)
    except LatexWalkerParseError as e:
        fail('encoder output does not parse in strict mode')
    except Violation:
        raise
    except Exception as e:
        fail('strict parse of encoder output raised %s' % type(e).__name__)
    kinds = {}
    count_kinds(nl, kinds)
    require('LatexCommentNode' not in kinds, 'encoder output contains a comment opened by an input character')
    require('LatexEnvironmentNode' not in kinds, 'encoder output contains an environment')
    if not math_ok:
        require('LatexMathNode' not in kinds, 'encoder output contains a math shift opened by an input character')
    return len(t) >= 1


MOD_POL = ['keep', 'replace', 'ignore', 'unihex', 'fail']


def body_modfn(t, k1, k2):
    """module-level latexencode.unicode_to_latex(): a call with one policy followed by a call with another"""
    import pylatexenc.latexencode as LE
    install_stubs()
    for k in (k1, k2):
        pol = MOD_POL[k]
        unknown = any((ord(c) not in TABLES['defaults']) and not in_passthrough(ord(c)) for c in t)
        try:
            out = LE.unicode_to_latex(t, unknown_char_policy=pol, unknown_char_warning=False)
        except ValueError:
            require(pol == 'fail' and unknown, 'module-level unicode_to_latex raised ValueError unexpectedly')
            continue
        require(not (pol == 'fail' and unknown), 'module-level unicode_to_latex did not raise under fail')
        if pol in ('replace', 'ignore', 'unihex'):
            require(all(ord(c) < 128 for c in out), 'module-level unicode_to_latex output is not ASCII under policy %s' % pol)
    return True


def set_pre(n, chars, var='t'):
    return ['len(%s) == %d' % (var, n)] + ['any(%s[%d] == c for c in %r)' % (var, i, chars) for i in range(n)]


SCHEMES = ['none', 'braces', 'braces-all', 'braces-almost-all', 'braces-after-macro']
POLICIES = ['keep', 'replace', 'ignore', 'fail', 'unihex']


def conditions(tier):
    quick = tier == 'quick'
    T = 900 if quick else 7200
    conds = []
    SM = [dict(t=x) for x in ('', 'a', '\\', '{', '%a', '$$', '~^_', '\\{', '# ', '&\n')]
    # (A) every ordering of the LaTeX-active ASCII characters (+ representatives) up to the bound
    for rs in ('defaults', 'unicode-xml'):
        for sc in SCHEMES:
            for n in ((1, 2) if (not quick or sc in ('braces', 'braces-after-macro')) else (1,)):
                conds.append(Cond('active_%s_%s_n%d' % (rs.replace('-', ''), sc.replace('-', ''), n), 't: str',
                                  set_pre(n, ACTIVE + REPS), 'body_inert(t, %r, %r, %r)' % (rs, sc, 'keep'),
                                  timeout=T, smoke=SM, twin=False))
            if not quick:
                for c0 in ACTIVE:
                    pre = ['len(t) == 3', 't[0] == chr(%d)' % ord(c0)] + \
                        ['any(t[%d] == c for c in %r)' % (i, ACTIVE + 'a ') for i in (1, 2)]
                    conds.append(Cond('active_%s_%s_n3_%d' % (rs.replace('-', ''), sc.replace('-', ''), ord(c0)), 't: str',
                                      pre, 'body_inert(t, %r, %r, %r)' % (rs, sc, 'keep'), timeout=T, twin=False, cost=2))
    # (B) one wildcard character over all Unicode (both tables), alone and between pinned ASCII neighbours; the code-point
    # range is cut into parts (disjoint, covering) so that 16 cores share one table
    def parts(rs, n):
        keys = sorted(TABLES[rs].keys())
        cuts = [keys[(len(keys) * k) // n] for k in range(1, n)]
        return list(zip([0] + cuts, cuts + [0x110000]))
    if quick:
        wild = [('defaults', 'braces', 'replace', 'alone', '?'), ('unicode-xml', 'braces-after-macro', 'replace', 'br', '{?}')]
    else:
        wild = [(rs, sc, pol, tag, sk) for rs in ('defaults', 'unicode-xml') for pol in ('replace', 'ignore', 'keep')
                for sc in ('braces', 'braces-after-macro') for tag, sk in ([('alone', '?')] + ([('a_r', '?a'), ('bs_l', '\\?'), ('br', '{?}'), ('sp', '? x'),
                                                                         ('pc', '?%')] if pol != 'keep' else []))]
    for rs, sc, pol, tag, sk in wild:
        i = sk.index('?')
        for lo, hi in parts(rs, 8 if quick else 4):
            pre = ['len(t) == %d' % len(sk)] + ['t[%d] == chr(%d)' % (j, ord(ch)) for j, ch in enumerate(sk) if ch != '?'] + \
                ['%d <= ord(t[%d]) < %d' % (lo, i, hi)]
            conds.append(Cond('wild_%s_%s_%s_%s_%x' % (rs.replace('-', ''), sc.replace('-', ''), pol, tag, lo), 't: str',
                              pre, 'body_inert(t, %r, %r, %r)' % (rs, sc, pol), timeout=T, cost=3, twin=False,
                              smoke=[dict(t=sk.replace('?', c)) for c in ('\xe9', '\x7f', '\U0001d400', '\u03ac', '\x01', '\ufffe')
                                     if lo <= ord(c) < hi]))
    for i, t in enumerate(['\u0416x', '\x01', '\xe9\U0001d7ffb']):
        conds.append(Cond('modfn_%d' % i, 'k1: int, k2: int', ['0 <= k1 < 5', '0 <= k2 < 5'], 'body_modfn(%r, k1, k2)' % t,
                          timeout=T, twin=False, smoke=[dict(k1=0, k2=1), dict(k1=4, k2=0)],
                          descr='module-level helper, all ordered pairs of the 5 policies, input %r' % t))
    # unihex / fail: hex formatting (also in the error message of 'fail') realises the code point; small ranges incl.
    # control, combining, astral, unassigned characters
    for rs in ('defaults',) if quick else ('defaults', 'unicode-xml'):
        for lo, hi in ((0, 32), (127, 140), (0x300, 0x308), (0x1d400, 0x1d404), (0xfffe, 0x10001)):
            for pol in ('unihex', 'fail'):
                conds.append(Cond('%s_%s_%x' % (pol, rs.replace('-', ''), lo), 't: str',
                                  ['len(t) == 1', '%d <= ord(t[0]) < %d' % (lo, hi)],
                                  'body_inert(t, %r, %r, %r)' % (rs, 'braces', pol), timeout=T, twin=False,
                                  smoke=[dict(t=chr(lo))]))
    return conds


META = dict(
    functions=['UnicodeToLatexEncoder.unicode_to_latex with conversion_rules "defaults" and "unicode-xml" (tables read at run '
               'time, looked up through BisectMap)', '_apply_protection_*', '_do_unknown_char_*',
               'LatexWalker strict parse of the output under the default context'],
    bounds=dict(quick='every string of length 1 over the ten LaTeX-active ASCII characters plus {a, space, newline, [} for both '
                      'tables x 5 protection schemes, length 2 for 2 schemes; one wildcard character over all Unicode '
                      '(control, combining, astral, unassigned included), alone (default table) and inside braces (unicode-xml), '
                      'policies replace and ignore; unihex and fail (exactness of the ValueError) on 5 code-point ranges; the module-level '
                      'helper after a call with another policy',
                thorough='length 3 for all 10 table/scheme pairs; wildcard under 4 policies x 2 schemes with 6 neighbour skeletons'),
    stubs=['unicodedata.normalize -> identity (claim on the NFC string)', 'BisectMap around both tables', 'logging disabled',
           'step budget on the parse of the output'],
    outside=['two wildcard characters next to each other', 'policy keep with a non-ASCII wildcard next to neighbours (the output '
             'then contains the symbolic character inside a concatenation, which CrossHair cannot parse within budget)',
             'unihex outside the listed ranges'],
    assumptions=['a math node is accepted only when the table replacement of an input character itself contains a math shift '
                 '(data predicate computed from the table)', 'pass-through range = U+0020..U+007F plus tab, LF, CR'],
)
