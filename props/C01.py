"""C01 Node tree is a lossless, exactly positioned cover of the source."""
from vlib.driver import Cond, ord_partition
from vlib.common import Violation, require, fail
from vlib.oracles import parse, check_tiling, check_span_tree, check_macro_extent
from vlib.parsefam import get_ctx, skel_pre, skel_fill, SKELETONS_S, SKELETONS_D, BS, hole_variants
from pylatexenc.latexwalker import LatexWalkerParseError

ID = 'C01'
TITLE = 'Node tree is a lossless, exactly positioned cover of the source'


def body_tile(s, ctxname):
    try:
        nl = parse(s, get_ctx(ctxname), tolerant=False)
    except LatexWalkerParseError:
        return False
    except Violation:
        raise
    except Exception:
        return False        # wrong exception types are C05's subject
    require(nl is not None, 'strict parse returned None')
    check_tiling(s, nl)
    n = check_span_tree(s, nl, 0, len(s), strict=True)
    if ctxname != 'D':
        check_macro_extent(s, nl)
    return n >= 1


def body_nest_tolerant(s, ctxname):
    try:
        nl = parse(s, get_ctx(ctxname), tolerant=True)
    except Violation:
        raise
    except Exception:
        return False        # exceptions in tolerant mode are C06's subject
    if nl is None:
        return False
    n = check_span_tree(s, nl, 0, len(s), strict=False)
    return n >= 1


def conditions(tier):
    quick = tier == 'quick'
    T = 600 if quick else 3000
    conds = []
    SM = [dict(s=x) for x in ('', 'a b', BS + 'a{x} y', BS + 'b [o] {x}', '$a$$b$', 'a%c\n b', 'a\n\n b', BS + 'c*',
                              BS + 'begin{F}[o]{x}y' + BS + 'end{F}', BS + 'v|x|', BS + 'a%c\n{x}', BS + BS + '*[x]')]
    for ctx, n in ([('S', 3), ('SU', 2), ('D', 2)] if quick else [('S', 4), ('SU', 4), ('D', 3)]):
        conds.append(Cond('tile_%s_le%d' % (ctx, n - 1), 's: str', ['len(s) <= %d' % (n - 1)],
                          'body_tile(s, %r)' % ctx, timeout=T, smoke=SM))
        cuts = (33, 36, 37, 92, 93, 123, 126) if n >= 3 else (36, 92, 93)
        for tag, pre in ord_partition('s', 0, cuts):
            conds.append(Cond('tile_%s_eq%d_%s' % (ctx, n, tag), 's: str', ['len(s) == %d' % n, pre],
                              'body_tile(s, %r)' % ctx, timeout=T * (1 if n < 4 else 4), cost=5,
                              twin=(tag not in ('p_eq37',))))
    for ctx, n in ([('S', 2), ('D', 2)] if quick else [('S', 3), ('SU', 3), ('D', 3)]):
        conds.append(Cond('nest_tol_%s_le%d' % (ctx, n), 's: str', ['len(s) <= %d' % n],
                          'body_nest_tolerant(s, %r)' % ctx, timeout=T, smoke=SM + [dict(s='a}b'), dict(s=BS + 'a$')]))
    qskip = ('a_tok', 'g_toks', 'q_absent', 'd_bare', 'env_E2', 'math_p', 'comment_par', 'dashes', 'quotes', 'f_mos')
    for ctxn, lst in (('S', SKELETONS_S), ('D', SKELETONS_D)):
        for nm, sk0 in lst:
            if quick and nm in qskip:
                continue
            if quick:
                variants = hole_variants(sk0, 1)
                if ctxn == 'D':
                    variants = variants[:2]
            else:
                variants = hole_variants(sk0, 2) + ([('full', sk0)] if len(hole_variants(sk0, 2)) > 1 else [])
            for tag, sk in variants:
                conds.append(Cond('skel_%s_%s_%s' % (ctxn, nm, tag), 's: str', skel_pre(sk), 'body_tile(s, %r)' % ctxn,
                                  timeout=T, cost=2, twin=not quick,
                                  smoke=[dict(s=skel_fill(sk)), dict(s=skel_fill(sk, ' ')), dict(s=skel_fill(sk, '\n')),
                                         dict(s=skel_fill(sk, '%'))],
                                  descr='skeleton %r (? = any character)' % sk))
                if not quick and tag in ('all', 'h0'):
                    conds.append(Cond('skeltol_%s_%s_%s' % (ctxn, nm, tag), 's: str', skel_pre(sk),
                                      'body_nest_tolerant(s, %r)' % ctxn, timeout=T, cost=2, twin=False))
    return conds


META = dict(
    functions=['LatexWalker.parse_content(LatexGeneralNodesParser())', 'LatexNodesCollector.push_pending_chars/'
               'flush_pending_chars/process_one_token', 'LatexDelimitedGroupParser (make_group_node_and_parsing_state_delta)',
               'LatexMathParser', 'LatexMacroCallParser/LatexEnvironmentCallParser/LatexSpecialsCallParser.parse',
               'LatexExpressionParser, LatexOptionalCharsMarkerParser, LatexDelimitedVerbatimParser, '
               'LatexVerbatimEnvironmentContentsParser', 'LatexTokenReader.impl_peek_token/impl_read_macro/impl_read_comment',
               'nodes.LatexNodeList (_update_posposend_from_nodelist), LatexNode.latex_verbatim'],
    bounds=dict(quick='strict: every Unicode string of length <= 3 (CTX_S), <= 2 (CTX_SU, default context); 41 skeletons '
                      '(every standard argument type, environments, math, verbatim, comments, paragraphs, depth-2 nestings) '
                      'with each hole in turn free; tolerant nesting: length <= 2 (CTX_S, default)',
                thorough='strict: length <= 4 (CTX_S, CTX_SU), <= 3 default; all 51 skeletons with every window of 2 adjacent '
                         'free holes and all holes free; tolerant nesting: length <= 3 and the skeletons'),
    stubs=['logging disabled', 'step budget on LatexTokenReader.peek_token'],
    outside=['documents longer than the free-string bound other than the skeletons', 'nesting depth > 2',
             'holes longer than one character'],
    assumptions=['children of a node = non-None nodeargd.argnlist items in order, then nodelist (public attributes)'],
)
