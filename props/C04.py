"""C04 Encoder output equals the documented rule semantics."""
import re
import unicodedata
from collections.abc import Mapping
from vlib.driver import Cond, ord_partition
from vlib.common import Violation, require, fail
from pylatexenc.latexencode import (UnicodeToLatexEncoder, UnicodeToLatexConversionRule, RULE_DICT, RULE_REGEX,
                                    RULE_CALLABLE, PartialLatexToLatexEncoder)
from pylatexenc.latexencode import get_builtin_uni2latex_dict
import pylatexenc.latexencode as latexencode_mod

ID = 'C04'
TITLE = 'Encoder output equals the documented rule semantics'

# ---- environment stub: unicodedata.normalize realises its argument (C function) -> identity + recorder ----
_REAL_NORMALIZE = unicodedata.normalize
NORM_CALLS = []


def _normalize_stub(form, s):
    NORM_CALLS.append(form)
    return s


def install_stubs():
    unicodedata.normalize = _normalize_stub


def remove_stubs():
    unicodedata.normalize = _REAL_NORMALIZE


def warmup():
    install_stubs()


class BisectMap(Mapping):
    """Same data as a dict, looked up by binary search (11 comparisons instead of 1512 equality forks)."""

    def __init__(self, d):
        self._keys = sorted(d.keys())
        self._vals = [d[k] for k in self._keys]

    def _find(self, o):
        lo, hi = 0, len(self._keys)
        while lo < hi:
            mid = (lo + hi) // 2
            if self._keys[mid] < o:
                lo = mid + 1
            else:
                hi = mid
        if lo < len(self._keys) and self._keys[lo] == o:
            return lo
        return -1

    def __contains__(self, o):
        return self._find(o) >= 0

    def __getitem__(self, o):
        i = self._find(o)
        if i < 0:
            raise KeyError(o)
        return self._vals[i]

    def __iter__(self):
        return iter(self._keys)

    def __len__(self):
        return len(self._keys)


_DEFAULT_DICT = dict(get_builtin_uni2latex_dict())
_DEFAULT_BISECT = BisectMap(_DEFAULT_DICT)


def selfcheck_bisect():
    for k, v in _DEFAULT_DICT.items():
        assert k in _DEFAULT_BISECT and _DEFAULT_BISECT[k] == v
        if k + 1 not in _DEFAULT_DICT:
            assert k + 1 not in _DEFAULT_BISECT
    assert len(_DEFAULT_BISECT) == len(_DEFAULT_DICT)


selfcheck_bisect()


# ---- rule lists: each entry gives the real rule object and a reference matcher (s, i) -> (consumed, repl) | None ----
def _dict_rule(d, prot=None, bisect=False):
    real = UnicodeToLatexConversionRule(RULE_DICT, BisectMap(d) if bisect else dict(d), replacement_latex_protection=prot)

    def ref(s, i):
        o = ord(s[i])
        return (1, d[o]) if o in d else None
    return real, ref, prot


def _lit_regex_rule(lit, repl, prot=None):
    real = UnicodeToLatexConversionRule(RULE_REGEX, [(re.compile(re.escape(lit)), repl.replace('\\', '\\\\'))],
                                        replacement_latex_protection=prot)

    def ref(s, i):
        return (len(lit), repl) if s[i:i + len(lit)] == lit else None
    return real, ref, prot


def _context_regex_rules():
    """regular expressions that look at the text around the position: 'b' preceded by 'a' (look-behind), '1' at the very
    beginning of the string (anchor), 'A' not followed by a space (look-ahead)"""
    real = UnicodeToLatexConversionRule(RULE_REGEX, [(re.compile('(?<=a)b'), '\\\\Bafter'), (re.compile('^1'), '\\\\One'),
                                                     (re.compile('A(?! )'), '\\\\Aa')])

    def ref(s, i):
        if s[i] == 'b' and i > 0 and s[i - 1] == 'a':
            return (1, '\\Bafter')
        if s[i] == '1' and i == 0:
            return (1, '\\One')
        if s[i] == 'A' and s[i + 1:i + 2] != ' ':
            return (1, '\\Aa')
        return None
    return real, ref, None


def _class_regex_rule(lo, hi, prot=None):
    """[lo-hi] single character -> <c> via a callable replacement"""
    real = UnicodeToLatexConversionRule(RULE_REGEX, [(re.compile('[%s-%s]' % (lo, hi)), lambda m: '<' + m.group() + '>')],
                                        replacement_latex_protection=prot)

    def ref(s, i):
        return (1, '<' + s[i] + '>') if lo <= s[i] <= hi else None
    return real, ref, prot


def _callable_rule(lit, repl, prot=None):
    def fn(s, pos):
        if s.startswith(lit, pos):
            return (len(lit), repl)
        return None
    real = UnicodeToLatexConversionRule(RULE_CALLABLE, fn, replacement_latex_protection=prot)

    def ref(s, i):
        return (len(lit), repl) if s[i:i + len(lit)] == lit else None
    return real, ref, prot


def _callable_u2l_rule(lit, repl):
    def fn(s, pos, u2lobj):
        if u2lobj is not None and s.startswith(lit, pos):
            return (len(lit), repl)
        return None
    real = UnicodeToLatexConversionRule(RULE_CALLABLE, fn)

    def ref(s, i):
        return (len(lit), repl) if s[i:i + len(lit)] == lit else None
    return real, ref, None


D1 = {0xe9: "\\'e", 0x7f: '\\DEL', ord('&'): '\\&', 0x3b1: '\\alpha', ord('a'): '\\textA'}


def rule_lists():
    return {
        'dict': [_dict_rule(D1)],
        'dict_prot_none': [_dict_rule(D1, prot='none')],
        'dict_prot_all': [_dict_rule({0xe9: "\\'e", ord('x'): 'y'}, prot='braces-all'), _dict_rule(D1)],
        'call2_then_dict': [_callable_rule('aa', '\\AA'), _dict_rule(D1)],
        'dict_then_call': [_dict_rule(D1), _callable_rule('ab', '\\never'), _callable_rule('b', '\\B')],
        'call_u2l': [_callable_u2l_rule('--', '\\textendash'), _callable_rule('-', '{-}', prot='none')],
        'lit_regex': [_lit_regex_rule('ab', '\\AB'), _dict_rule(D1)],
        'class_regex': [_class_regex_rule('0', '9'), _lit_regex_rule('a1', '\\never?'), _dict_rule(D1)],
        'regex_after_dict': [_dict_rule({ord('a'): '\\x'}), _lit_regex_rule('ab', '\\AB'), _lit_regex_rule('ba', '\\BA',
                                                                                                          prot='braces-after-macro')],
        'context_regex': [_context_regex_rules(), _dict_rule({0xe9: "\\'e"})],
        'empty': [],
    }


PROTECTIONS = ['none', 'braces', 'braces-all', 'braces-almost-all', 'braces-after-macro']
POLICIES = ['keep', 'replace', 'ignore', 'fail', 'unihex']


def ref_protect(scheme, repl):
    """written from the class documentation of replacement_latex_protection"""
    if scheme == 'none':
        return repl
    if scheme == 'braces-all':
        return '{' + repl + '}'
    if scheme == 'braces-almost-all':
        return '{' + repl + '}' if repl.startswith('\\') else repl
    k = repl.rfind('\\')
    dangling = k >= 0 and repl[k + 1:] != '' and all(('a' <= c <= 'z') or ('A' <= c <= 'Z') for c in repl[k + 1:])
    if scheme == 'braces':
        return '{' + repl + '}' if dangling else repl
    if scheme == 'braces-after-macro':
        return repl + '{}' if dangling else repl
    raise AssertionError(scheme)


def hex4(o):
    h = '%X' % o
    return '0' * (4 - len(h)) + h if len(h) < 4 else h


class RefFail(Exception):
    pass


def ref_policy(policy, ch):
    if policy == 'keep':
        return ch
    if policy == 'replace':
        return '{\\bfseries ?}'
    if policy == 'ignore':
        return ''
    if policy == 'fail':
        raise RefFail()
    if policy == 'unihex':
        return '\\ensuremath{\\langle}\\texttt{U+' + hex4(ord(ch)) + '}\\ensuremath{\\rangle}'
    raise AssertionError(policy)


def ref_encode(t, refs, protection, policy, non_ascii_only):
    """Reference written from the property statement.  Returns (chunks, has_del) ; raises RefFail."""
    out = []
    has_del = False
    i = 0
    n = len(t)
    while i < n:
        ch = t[i]
        o = ord(ch)
        if non_ascii_only and o < 128:
            out.append(ch)
            i += 1
            continue
        hit = None
        for ref, rprot in refs:
            r = ref(t, i)
            if r is not None:
                hit = (r, rprot)
                break
        if hit is not None:
            (consumed, repl), rprot = hit
            out.append(ref_protect(rprot if rprot is not None else protection, repl))
            i += consumed
            continue
        if (32 <= o <= 126) or ch == '\n' or ch == '\r' or ch == '\t':
            out.append(ch)
        elif o == 127:
            has_del = True      # DEL: statement ("printable ASCII") and pass-through range disagree; not constrained
            out.append(ch)
        else:
            out.append(ref_policy(policy, ch))
        i += 1
    return out, has_del


class ChunkList(object):
    def __init__(self):
        self.chunks = []

    def __iadd__(self, s):
        self.chunks.append(s)
        return self


def body_enc(t, listname, protection, policy, non_ascii_only, chunks=False):
    install_stubs()
    del NORM_CALLS[:]
    rl = rule_lists()[listname]
    kw = dict(conversion_rules=[r[0] for r in rl], replacement_latex_protection=protection,
              unknown_char_policy=policy, non_ascii_only=non_ascii_only, unknown_char_warning=False)
    if chunks:
        kw['latex_string_class'] = ChunkList
    enc = UnicodeToLatexEncoder(**kw)
    try:
        exp, has_del = ref_encode(t, [(r[1], r[2]) for r in rl], protection, policy, non_ascii_only)
        exp_fail = False
    except RefFail:
        exp, has_del, exp_fail = None, False, True
    try:
        got = enc.unicode_to_latex(t)
        got_fail = False
    except ValueError:
        require(policy == 'fail', 'ValueError raised under a policy other than fail')
        got, got_fail = None, True
    except Violation:
        raise
    except Exception as e:
        fail('encoder raised %s' % type(e).__name__)
    # the input must be NFC-normalised; skipping the call is only acceptable when the string cannot change under NFC
    # (every character below U+0300 is its own NFC form and composes with nothing)
    require(NORM_CALLS == ['NFC'] or (NORM_CALLS == [] and all(ord(c) < 768 for c in t)),
            'input is not NFC-normalised before encoding')
    if has_del and policy != 'keep':
        return False
    require(got_fail == exp_fail, 'ValueError raised iff some character has no rule and is not passed through')
    if got_fail:
        return True
    # a second call on the same encoder object must give an equal, independent result
    try:
        got2 = enc.unicode_to_latex(t)
    except Exception as e:
        fail('second call on the same encoder raised %s' % type(e).__name__)
    if chunks:
        require(got2 is not got and got2.chunks == got.chunks, 'second call on the same encoder gives a different result')
    else:
        require(got2 == got, 'second call on the same encoder gives a different result')
    if chunks:
        require(isinstance(got, ChunkList), 'result is not an instance of latex_string_class')
        require([c for c in got.chunks if c != ''] == [c for c in exp if c != ''],
                'chunks appended to the custom result class differ from the per-position replacements')
    else:
        require(isinstance(got, str), 'result is not a str')
        require(got == ''.join(exp), 'encoder output differs from the documented rule semantics')
    return len(t) >= 2


def _default_enc(policy, protection, non_ascii_only, bisect=True):
    rules = [UnicodeToLatexConversionRule(RULE_DICT, _DEFAULT_BISECT if bisect else _DEFAULT_DICT)]
    return UnicodeToLatexEncoder(conversion_rules=rules, replacement_latex_protection=protection,
                                 unknown_char_policy=policy, non_ascii_only=non_ascii_only, unknown_char_warning=False)


def body_default(s, protection, policy):
    """default table through BisectMap: per-character processing => concatenation law, on the normalised string."""
    install_stubs()
    enc = _default_enc(policy, protection, False)
    try:
        whole = enc.unicode_to_latex(s)
    except ValueError:
        require(policy == 'fail', 'ValueError raised under a policy other than fail')
        whole = None
    parts = []
    failed = False
    for k in range(len(s)):
        try:
            parts.append(enc.unicode_to_latex(s[k]))
        except ValueError:
            failed = True
    require((whole is None) == failed, 'fail policy: whole string and its characters disagree')
    if whole is not None:
        require(whole == ''.join(parts), 'encoding of a concatenation differs from the concatenation of encodings')
        ref = ref_encode(s, [(lambda t, i: (1, _DEFAULT_BISECT[ord(t[i])]) if ord(t[i]) in _DEFAULT_BISECT else None, None)],
                         protection, policy, False)
        if not ref[1] or policy == 'keep':
            require(whole == ''.join(ref[0]), 'default-rule output differs from the reference')
    return True


def body_partial(t, policy, keep_dollar):
    """PartialLatexToLatexEncoder: total (only ValueError under fail) and equal to the reference that copies one
    LaTeX token at keep characters when one can be delimited and otherwise falls through to the rules."""
    install_stubs()
    from pylatexenc.latexnodes import LatexTokenReader, ParsingState, LatexWalkerError
    keep = '\\${}^_' if keep_dollar else '\\{}'
    enc = PartialLatexToLatexEncoder(keep_latex_chars=keep, conversion_rules=[
        UnicodeToLatexConversionRule(RULE_DICT, BisectMap(D1))], unknown_char_policy=policy,
        unknown_char_warning=False)
    try:
        got = enc.unicode_to_latex(t)
        got_fail = False
    except ValueError:
        require(policy == 'fail', 'ValueError raised under a policy other than fail')
        got_fail = True
    except Violation:
        raise
    except Exception as e:
        fail('partial encoder raised %s' % type(e).__name__)
    if got_fail:
        return True
    # reference
    def keep_rule(s, i):
        if not any(s[i] == k for k in keep):
            return None
        try:
            from pylatexenc.latexwalker import LatexWalker
            lw = LatexWalker(s, tolerant_parsing=False)
            tok = LatexTokenReader(s).__class__(s)  # fresh reader
            tok.move_to_pos_chars(i)
            tk = tok.peek_token(lw.make_parsing_state())
        except LatexWalkerError:
            return None
        return (tk.pos_end - i, s[i:tk.pos_end])
    try:
        exp, has_del = ref_encode(t, [(keep_rule, 'none'), (lambda s, i: (1, D1[ord(s[i])]) if ord(s[i]) in D1 else None, None)],
                                  'braces', policy, False)
    except RefFail:
        fail('partial encoder returned although an unencodable character is present under fail')
    if has_del and policy != 'keep':
        return False
    require(got == ''.join(exp), 'partial encoder output differs from "copy one token at keep characters, else the rules"')
    return len(t) >= 2


def body_cache(t, k1, k2):
    """module-level helper: successive calls with different option sets equal freshly built encoders."""
    install_stubs()
    opts = [dict(), dict(non_ascii_only=True), dict(replacement_latex_protection='braces-all'),
            dict(unknown_char_policy='replace'), dict(unknown_char_policy='unihex', replacement_latex_protection='none'),
            dict(non_ascii_only=True, unknown_char_policy='ignore')]
    for k in (k1, k2, k1):
        o = opts[k]
        got = latexencode_mod.unicode_to_latex(t, unknown_char_warning=False, **o)
        exp = UnicodeToLatexEncoder(unknown_char_warning=False, **o).unicode_to_latex(t)
        require(got == exp, 'cached module-level encoder differs from a freshly built one')
    return True


def conditions(tier):
    quick = tier == 'quick'
    T = 600 if quick else 3000
    N = 3 if quick else 4
    conds = []
    REGEX_LISTS = ('lit_regex', 'class_regex', 'regex_after_dict', 'context_regex')
    lists = [k for k in rule_lists().keys() if k not in REGEX_LISTS]
    SM = [dict(t=x) for x in ('', 'a&b', 'aab', 'éa', 'ab1', '\x7f', 'x ', '--a', 'ba ')]
    # pairwise-ish cover of list x protection x policy x non_ascii_only (each list meets every protection and policy)
    k = 0
    for li, ln in enumerate(lists):
        combos = []
        for j in range(len(PROTECTIONS)):
            combos.append((PROTECTIONS[j], POLICIES[(j + li) % 5], (j + li) % 2 == 0))
        if quick:
            combos = combos[li % 2::2][:3] if ln not in ('dict', 'lit_regex') else combos
        for prot, pol, nao in combos:
            k += 1
            nm = 'enc_%s_%s_%s_%s' % (ln, prot.replace('-', ''), pol, 'nao' if nao else 'all')
            uh = ['all(ord(k) < 136 or k == chr(233) or k == chr(945) for k in t)'] if pol in ('unihex', 'fail') else []
            conds.append(Cond(nm + '_le%d' % (N - 1), 't: str', ['len(t) <= %d' % (N - 1)] + uh,
                              'body_enc(t, %r, %r, %r, %r)' % (ln, prot, pol, nao), timeout=T, smoke=SM))
            if not quick or (ln in ('dict', 'call2_then_dict') and pol not in ('fail', 'unihex')):
                conds.append(Cond(nm + '_eq%d' % N, 't: str', ['len(t) == %d' % N] + uh,
                                  'body_enc(t, %r, %r, %r, %r)' % (ln, prot, pol, nao), timeout=T * 2, cost=4, smoke=SM))
    # regex rules: CrossHair's model of re (match at a position in a symbolic string) disagrees with CPython, so these
    # lists are exercised concretely only (all strings over a small alphabet up to length 3) and not claimed symbolically
    for ln in REGEX_LISTS:
        alpha = 'ab1\xe9&A '
        sm = [dict(t=a + b + c) for a in [''] + list(alpha) for b in [''] + list(alpha) for c in alpha]
        conds.append(Cond('concrete_regex_' + ln, 't: str', [], "body_enc(t, %r, 'braces', 'keep', False)" % ln, smoke=sm[::3],
                          concrete_only=True, twin=False))
    conds.append(Cond('enc_chunks', 't: str', ['len(t) <= %d' % (N - 1)],
                      "body_enc(t, 'call2_then_dict', 'braces', 'replace', False, True)", timeout=T, smoke=SM))
    conds.append(Cond('enc_chunks_ignore', 't: str', ['len(t) <= %d' % (N - 1)],
                      "body_enc(t, 'dict', 'braces-almost-all', 'ignore', True, True)", timeout=T, smoke=SM))
    # default table: one wildcard over all Unicode, alone and next to pinned ASCII neighbours
    for prot, pol in ([('braces', 'keep'), ('braces-after-macro', 'replace')] if quick else
                      [(p, q) for p in PROTECTIONS for q in ('keep', 'replace', 'ignore')]):
        for tag, sk in [('alone', '?'), ('a_l', 'a?'), ('a_r', '?a'), ('bs_l', '\\?'), ('sp_r', '? '), ('br', '{?}'),
                        ('two', '??' if not quick else '?&')]:
            if quick and (prot, tag) not in (('braces', 'alone'), ('braces', 'a_r'), ('braces', 'bs_l'),
                                             ('braces-after-macro', 'alone'), ('braces-after-macro', 'br')):
                continue
            pre = ['len(s) == %d' % len(sk)] + ['s[%d] == chr(%d)' % (i, ord(ch)) for i, ch in enumerate(sk) if ch != '?']
            conds.append(Cond('default_%s_%s_%s' % (prot.replace('-', ''), pol, tag), 's: str', pre,
                              'body_default(s, %r, %r)' % (prot, pol), timeout=T * 2, cost=4, twin=False,
                              smoke=[dict(s=sk.replace('?', c)) for c in ('é', '\x7f', '\U0001d400', '~')]))
    for pol in (['keep', 'fail'] if quick else POLICIES):
        for kd in (True, False):
            conds.append(Cond('partial_%s_%s' % (pol, 'dollar' if kd else 'nodollar'), 't: str', ['len(t) <= %d' % (N - 1)] +
                              (['all(ord(k) < 136 or k == chr(233) for k in t)'] if pol in ('fail', 'unihex') else []),
                              'body_partial(t, %r, %r)' % (pol, kd), timeout=T,
                              smoke=[dict(t=x) for x in ('', 'a\\', '\\a b', '$é$', '\\begin', '{&}', '\\é')]))
    # module-level cache: option selectors symbolic (all 36 ordered pairs), input strings concrete (the helper uses the real
    # 1512-key dictionary, which a symbolic character cannot be looked up in within budget)
    for i, t in enumerate(['\xe9&', '\x7f ', 'a{', '\u2192\U0001d400']):
        conds.append(Cond('cache_%d' % i, 'k1: int, k2: int', ['0 <= k1 < 6', '0 <= k2 < 6'], 'body_cache(%r, k1, k2)' % t,
                          timeout=T, twin=False, smoke=[dict(k1=0, k2=1), dict(k1=4, k2=3)]))
    return conds


META = dict(
    functions=['UnicodeToLatexEncoder.__init__ (rule compilation) / unicode_to_latex', '_check_do_skip_ascii',
               '_apply_rule_dict/_apply_rule_regex/_apply_rule_callable/_apply_replacement', '_apply_protection_* (5 schemes)',
               '_do_unknown_char_* (5 policies)', 'PartialLatexToLatexEncoder._do_partial_latex_encode_step',
               'latexencode.unicode_to_latex (module-level cache)', 'get_builtin_uni2latex_dict (data, through BisectMap)'],
    bounds=dict(quick='every Unicode string of length <= 2 for 10 generated rule lists (dict, literal/class regex, callables with 1-2 '
                      'characters consumed, per-rule protection, overlapping matches) under a cover of 5 protection schemes x 5 '
                      'policies x non_ascii_only, length 3 for 4 of the lists; custom result class; default table: one wildcard '
                      'character over all Unicode alone and next to pinned ASCII neighbours (a, backslash, space, braces, &) under 2 option '
                      'pairs; partial encoder length <= 2; module-level cache: all 36 ordered pairs of 6 option sets (symbolic selectors) on 4 concrete strings; '
                      'unihex policy: code points < U+0088 plus two ruled characters (hex formatting of a symbolic code point is '
                      'realised value by value)',
                thorough='length <= 3 everywhere and 4 per list; default table under all 25 protection x policy pairs'),
    stubs=['unicodedata.normalize -> identity with a recorder: the claim is about the encoder core applied to the NFC string; '
           'the harness asserts normalize("NFC", .) is called exactly once', 'BisectMap wraps the rule dictionaries '
           '(validated against the real dict at import)', 'logging disabled'],
    outside=['regular-expression rules: not decidable with this engine (CrossHair 0.0.110 models re.match(s, pos) on a symbolic '
             'string differently from CPython: its counterexamples do not replay); they are only run concretely',
             'fail and unihex policies outside code points < U+0088 and two ruled characters, and with the default table wildcard (the error message / hex formatting realises the code point value by value)', 'callables with side effects',
             'two non-ASCII wildcard characters next to each other with the default table',
             'U+007F (DEL) under policies other than keep: the statement says "printable ASCII is copied" while the documented '
             'pass-through range includes it; the check does not constrain that character'],
)
