"""C19 A node visitor sees every node exactly once, children first, in document order."""
from vlib.driver import Cond, ord_partition
from vlib.common import Violation, require, fail
from vlib.oracles import parse
from vlib.parsefam import get_ctx, skel_pre, skel_fill, SKELETONS_S, SKELETONS_D, BS, hole_variants
from pylatexenc.latexwalker import LatexWalkerParseError
from pylatexenc.latexnodes import nodes as N
from pylatexenc.latexnodes.nodes import LatexNodesVisitor

ID = 'C19'
TITLE = 'A node visitor sees every node exactly once, children first, in document order'


class Recorder(LatexNodesVisitor):
    def __init__(self):
        self.log = []

    def _rec(self, kind, obj, kw):
        self.log.append((kind, obj, kw))
        return len(self.log) - 1

    def visit_chars_node(self, node, **kw):
        return self._rec('chars', node, kw)

    def visit_group_node(self, node, **kw):
        return self._rec('group', node, kw)

    def visit_comment_node(self, node, **kw):
        return self._rec('comment', node, kw)

    def visit_macro_node(self, node, **kw):
        return self._rec('macro', node, kw)

    def visit_environment_node(self, node, **kw):
        return self._rec('environment', node, kw)

    def visit_specials_node(self, node, **kw):
        return self._rec('specials', node, kw)

    def visit_math_node(self, node, **kw):
        return self._rec('math', node, kw)

    def visit_node_list(self, nodes, **kw):
        return self._rec('list', nodes, kw)

    def visit_parsed_arguments(self, parsed_args, **kw):
        return self._rec('args', parsed_args, kw)

    def visit_unknown_node(self, node, **kw):
        return self._rec('unknown', node, kw)


def _seq(items, log):
    return [exp_visit(c, log) if c is not None else None for c in items]


def exp_args(pa, log):
    if pa is None:
        return ''
    rs = None if pa.argnlist is None else _seq(pa.argnlist, log)
    log.append(('args', pa, {'visited_results_argnlist': rs}))
    return len(log) - 1


def exp_visit(x, log):
    """independent post-order walk over public attributes: arguments before body, document order, None kept"""
    if isinstance(x, N.LatexNodeList):
        rs = _seq(x.nodelist, log)
        log.append(('list', x, {'visited_results_nodelist': rs}))
    elif isinstance(x, N.LatexCharsNode):
        log.append(('chars', x, {}))
    elif isinstance(x, N.LatexCommentNode):
        log.append(('comment', x, {}))
    elif isinstance(x, N.LatexGroupNode):
        rs = [] if x.nodelist is None else _seq(x.nodelist, log)
        log.append(('group', x, {'visited_results_nodelist': rs}))
    elif isinstance(x, N.LatexMacroNode):
        ra = exp_args(x.nodeargd, log)
        log.append(('macro', x, {'visited_results_arguments': ra}))
    elif isinstance(x, N.LatexEnvironmentNode):
        ra = exp_args(x.nodeargd, log)
        rb = [] if x.nodelist is None else _seq(x.nodelist, log)
        log.append(('environment', x, {'visited_results_arguments': ra, 'visited_results_body': rb}))
    elif isinstance(x, N.LatexSpecialsNode):
        ra = exp_args(x.nodeargd, log)
        log.append(('specials', x, {'visited_results_arguments': ra}))
    elif isinstance(x, N.LatexMathNode):
        rs = None if x.nodelist is None else _seq(x.nodelist, log)
        log.append(('math', x, {'visited_results_nodelist': rs}))
    else:
        log.append(('unknown', x, {}))
    return len(log) - 1


def ctx_with_empty_list_arg():
    """CTX_SU plus a macro \\w whose optional marker argument is an EMPTY node list (not None) when absent"""
    from pylatexenc.macrospec import MacroSpec
    from pylatexenc.latexnodes import LatexArgumentSpec
    from pylatexenc.latexnodes.parsers import LatexOptionalCharsMarkerParser
    db = get_ctx('SU')
    db.add_context_category('W', prepend=True, macros=[MacroSpec('w', arguments_spec_list=[
        LatexArgumentSpec(LatexOptionalCharsMarkerParser(['*'], return_none_instead_of_empty=False)), '{'])])
    return db


def body_visit(s, ctxname, tolerant):
    try:
        nl = parse(s, ctx_with_empty_list_arg() if ctxname == 'W' else get_ctx(ctxname), tolerant=tolerant)
    except LatexWalkerParseError:
        return False
    except Violation:
        raise
    except Exception:
        return False
    if nl is None:
        return False
    rec = Recorder()
    try:
        top = rec.start(nl)
    except Violation:
        raise
    except Exception as e:
        fail('visitor raised %s' % type(e).__name__)
    exp = []
    exp_top = exp_visit(nl, exp)
    got = rec.log
    require(len(got) == len(exp), 'number of visit callbacks differs from the number of nodes (a node skipped or seen twice)')
    for i in range(len(exp)):
        require(got[i][0] == exp[i][0], 'callback kind out of order (children first, document order)')
        require(got[i][1] is exp[i][1], 'callback received a different node than expected at this point of the walk')
        require(got[i][2] == exp[i][2], 'parent did not receive exactly the results of its children in order')
    require(top == exp_top, 'start() did not return the result of the root visit')
    seen = set()
    for k, o, kw in got:
        require(id(o) not in seen, 'an object was visited twice')
        seen.add(id(o))
    return len(got) >= 2


def conditions(tier):
    quick = tier == 'quick'
    T = 600 if quick else 3000
    conds = []
    SM = [dict(s=x) for x in ('', 'a', BS + 'b[o]{x}', BS + 'b{x}', BS + 'c*', BS + 'c', '$a$', '{' + BS + 'a{x}}',
                              BS + 'begin{F}[o]{x}y' + BS + 'end{F}', BS + 'begin{E}' + BS + 'end{E}', 'a%c\nb', '{}', '$$$$')]
    for ctx, tol, n in ([('S', False, 2), ('S', True, 2), ('D', True, 2)] if quick else
                        [('S', False, 3), ('S', True, 3), ('SU', True, 3), ('D', True, 3), ('D', False, 3)]):
        conds.append(Cond('visit_%s_%s_le%d' % (ctx, 'tol' if tol else 'strict', n), 's: str', ['len(s) <= %d' % n],
                          'body_visit(s, %r, %r)' % (ctx, tol), timeout=T, smoke=SM, twin=True))
    if quick:
        for tag, pre in ord_partition('s', 0, (36, 37, 92, 93, 123)):
            conds.append(Cond('visit_S_tol_eq3_' + tag, 's: str', ['len(s) == 3', pre], "body_visit(s, 'S', True)",
                              timeout=T, cost=4, twin=False))
    for nm, sk in (('w_absent', BS + 'w{?}?'), ('w_absent2', BS + 'w?{x}?'), ('w_star', BS + 'w*{?}?')):
        conds.append(Cond('skel_W_' + nm, 's: str', skel_pre(sk), "body_visit(s, 'W', False)", timeout=T, twin=False,
                          smoke=[dict(s=skel_fill(sk)), dict(s=skel_fill(sk, ' '))],
                          descr='macro whose absent optional marker is an empty node list: %r' % sk))
    qskip = ('a_tok', 'g_toks', 'd_bare', 'env_E2', 'math_p', 'comment_par', 'dashes', 'quotes', 'f_mos', 'q_absent',
             'b_sp', 'c_end', 'e_part', 'nl_opt', 'env_F2', 'math_d')
    for ctxn, lst in (('S', SKELETONS_S), ('D', SKELETONS_D)):
        for nm, sk0 in lst:
            if quick and nm in qskip:
                continue
            variants = hole_variants(sk0, 1)[:1] if quick else hole_variants(sk0, 2)
            for tag, sk in variants:
                conds.append(Cond('skel_%s_%s_%s' % (ctxn, nm, tag), 's: str', skel_pre(sk), 'body_visit(s, %r, False)' % ctxn,
                                  timeout=T, cost=2, twin=False, smoke=[dict(s=skel_fill(sk))],
                                  descr='skeleton %r (? = any character)' % sk))
                if not quick:
                    conds.append(Cond('skeltol_%s_%s_%s' % (ctxn, nm, tag), 's: str', skel_pre(sk),
                                      'body_visit(s, %r, True)' % ctxn, timeout=T, cost=2, twin=False))
    return conds


META = dict(
    functions=['LatexNodesVisitor.start/descend_into_nodelist/descend_into_parsed_arguments/node_standard_process_*',
               'LatexNode.accept_node_visitor (all node classes), LatexNodeList.accept_node_visitor, ParsedArguments.accept_node_visitor',
               'the parsers producing the trees (see C01)'],
    bounds=dict(quick='trees from strict and tolerant parses of every Unicode string of length <= 2 (CTX_S, default context) and tolerant '
                      'parses of length 3 (CTX_S); strict parses of 35 skeletons (every node kind, present and absent arguments, empty '
                      'bodies, depth 2) with the first hole free',
                thorough='length <= 3 for five context/mode pairs; all skeletons with every window of 2 free holes, strict and tolerant'),
    stubs=['logging disabled', 'step budget'],
    outside=['hand-built trees that no parse produces', 'deeper nestings than the skeletons'],
    assumptions=['expected order: arguments before body, document order, None placeholders kept; the expectation is computed by '
                 'an independent recursion over public attributes'],
)
