"""C15 \\input never reads outside the configured directory in strict mode (file system = modelled environment)."""
import builtins
import os
import posixpath
import tempfile
import shutil
from vlib.driver import Cond
from vlib.common import Violation, require, fail
from pylatexenc.latex2text import LatexNodes2Text

ID = 'C15'
TITLE = '\\input never reads outside the configured directory in strict mode'

_REAL = dict(realpath=posixpath.realpath, exists=posixpath.exists, isfile=posixpath.isfile, open=builtins.open)


def warmup():
    # lazily built default databases must exist before tracing starts (determinism between paths)
    l2t = LatexNodes2Text()
    l2t.latex_to_text('\\input{x} a')
    body_input('/a', 'x', '/a', '/a/x', '/y', '/z', True, False, False)
    body_input('/a', 'x', '/a', '/a/x', '/y', '/z', False, False, False, True)


def is_real(p):
    """what os.path.realpath guarantees about its result: absolute and normalised"""
    if len(p) < 1 or p[0] != '/':
        return False
    if len(p) > 1 and p[len(p) - 1] == '/':
        return False
    if '//' in p or '/./' in p or '/../' in p or '\x00' in p:
        return False
    if p.endswith('/.') or p.endswith('/..'):
        return False
    return True


def inside(target, rdir):
    if rdir == '/':
        return target != '/'
    return target.startswith(rdir + '/')


class FsModel(object):
    """realpath = uninterpreted function given by the harness parameters; exists/isfile follow links; open records."""

    def __init__(self, d, fn, r_dir, r_name, r_tex, r_latex, e_plain, e_tex, e_latex):
        self.r_dir = r_dir
        self.asked = []
        self.opened = []
        joined = posixpath.join(d, fn)
        # the resolved targets are real paths, hence fixpoints
        self.real = [(r_dir, r_dir), (r_name, r_name), (r_tex, r_tex), (r_latex, r_latex),
                     (d, r_dir), (joined, r_name), (r_name + '.tex', r_tex), (r_name + '.latex', r_latex)]
        self.exist = [(r_name, e_plain), (r_tex, e_tex), (r_latex, e_latex)]

    def _lookup(self, p):
        # interpreter internals (linecache, logging, CrossHair itself) resolve real source files through the same
        # library functions while the stubs are installed; every path of the modelled layout has <= 12 characters
        if len(p) > 12:
            return None
        for k, v in self.real:
            if p == k:
                return v
        return None

    def realpath(self, p, **kw):
        t = self._lookup(p)
        if t is None:
            # not a path of the modelled layout (interpreter internals resolving source files): real answer
            return _REAL['realpath'](p, **kw)
        return t

    def exists(self, p):
        t = self._lookup(p)
        if t is None:
            return _REAL['exists'](p)
        for k, v in self.exist:
            if t == k:
                return v
        return False

    def isfile(self, p):
        t = self._lookup(p)
        if t is None:
            return _REAL['isfile'](p)
        return self.exists(p)

    def open(self, p, *a, **k):
        t = self._lookup(p)
        if t is None:
            return _REAL['open'](p, *a, **k)
        self.opened.append(t)
        model = self

        class F(object):
            def __enter__(self_):
                return self_

            def __exit__(self_, *a):
                return False

            def read(self_):
                return 'IN' if inside(t, model.r_dir) else 'OUT'
        return F()


def not_a_directory(t, r_dir):
    """an existing regular file is neither the input directory nor one of its ancestors"""
    if t == r_dir or t == '/':
        return False
    return not r_dir.startswith(t + '/')


def consistent(r_dir, d, fn, r_name, r_tex, r_latex, e_plain, e_tex, e_latex):
    """the model is a function: equal keys must have equal answers."""
    joined = posixpath.join(d, fn)
    keys = [(r_dir, r_dir), (r_name, r_name), (r_tex, r_tex), (r_latex, r_latex),
            (d, r_dir), (joined, r_name), (r_name + '.tex', r_tex), (r_name + '.latex', r_latex)]
    for i in range(len(keys)):
        for j in range(i + 1, len(keys)):
            if keys[i][0] == keys[j][0] and keys[i][1] != keys[j][1]:
                return False
    ex = [(r_name, e_plain), (r_tex, e_tex), (r_latex, e_latex)]
    for t, e in ex:
        if e and not not_a_directory(t, r_dir):
            return False
    for i in range(3):
        for j in range(i + 1, 3):
            if ex[i][0] == ex[j][0] and ex[i][1] != ex[j][1]:
                return False
    return True


def body_input(d, fn, r_dir, r_name, r_tex, r_latex, e_plain, e_tex, e_latex, via_macro=False):
    """d: configured directory string; r_dir: its real path; fn: request; r_*: resolved targets; e_*: existence"""
    m = FsModel(d, fn, r_dir, r_name, r_tex, r_latex, e_plain, e_tex, e_latex)
    l2t = LatexNodes2Text()
    l2t.set_tex_input_directory(d, strict_input=True)
    posixpath.realpath, posixpath.exists, posixpath.isfile, builtins.open = m.realpath, m.exists, m.isfile, m.open
    try:
        if via_macro:
            got = l2t.latex_to_text('\\input{' + fn + '}')
        else:
            got = l2t.read_input_file(fn)
    finally:
        posixpath.realpath, posixpath.exists, posixpath.isfile, builtins.open = \
            _REAL['realpath'], _REAL['exists'], _REAL['isfile'], _REAL['open']
    require('OUT' not in got, 'content of a file outside the input directory was returned')
    for t in m.opened:
        require(inside(t, r_dir), 'a file whose real path lies outside the input directory was opened')
    if inside(r_name, r_dir) and e_plain:
        require('IN' in got, 'a name that resolves to an existing file inside the directory was not read')
    return len(m.opened) >= 1


def body_input_seq(t, e_second, first_strict):
    """same LatexNodes2Text object: read the name under directory /b (strict or not), then configure /a strictly and
    read the same name again: nothing from outside /a may be returned the second time."""
    l2t = LatexNodes2Text()
    m1 = FsModel('/b', 'x', '/b', '/b/x', '/zz/p.tex', '/zz/p.latex', True, False, False)
    m1.r_dir = '/a'          # contents are labelled relative to the directory configured at the end
    l2t.set_tex_input_directory('/b', strict_input=first_strict)
    posixpath.realpath, posixpath.exists, posixpath.isfile, builtins.open = m1.realpath, m1.exists, m1.isfile, m1.open
    try:
        first = l2t.read_input_file('x')
    finally:
        posixpath.realpath, posixpath.exists, posixpath.isfile, builtins.open = \
            _REAL['realpath'], _REAL['exists'], _REAL['isfile'], _REAL['open']
    require(first == 'OUT', 'model: the first read should return the file below /b')
    m2 = FsModel('/a', 'x', '/a', t, '/zz/p.tex', '/zz/p.latex', e_second, False, False)
    l2t.set_tex_input_directory('/a', strict_input=True)
    posixpath.realpath, posixpath.exists, posixpath.isfile, builtins.open = m2.realpath, m2.exists, m2.isfile, m2.open
    try:
        got = l2t.read_input_file('x')
    finally:
        posixpath.realpath, posixpath.exists, posixpath.isfile, builtins.open = \
            _REAL['realpath'], _REAL['exists'], _REAL['isfile'], _REAL['open']
    require('OUT' not in got, 'after re-configuring the input directory, content from outside it was returned')
    if e_second and inside(t, '/a'):
        require(got == 'IN', 'after re-configuring the input directory, the file inside it was not read')
    return True


# ---- model validation on the real file system (concrete only) ----
def body_realfs(case):
    root = tempfile.mkdtemp(prefix='c15_', dir='/verif/.work' if os.path.isdir('/verif/.work') else None)
    try:
        doc = os.path.join(root, 'doc')
        os.makedirs(os.path.join(doc, 'sub'))
        os.makedirs(os.path.join(root, 'doc-private'))
        os.makedirs(os.path.join(root, 'other'))

        def w(p, c):
            with open(p, 'w') as f:
                f.write(c)
        w(os.path.join(doc, 'in.tex'), 'IN')
        w(os.path.join(doc, 'sub', 'deep.tex'), 'IN')
        w(os.path.join(root, 'doc-private', 'secret.tex'), 'OUT')
        w(os.path.join(root, 'other', 'o.tex'), 'OUT')
        w(os.path.join(root, 'doc.tex'), 'OUT')
        w(os.path.join(root, 'doc.latex'), 'OUT')
        os.symlink(os.path.join(root, 'other', 'o.tex'), os.path.join(doc, 'link.tex'))
        os.symlink(os.path.join(root, 'other'), os.path.join(doc, 'dirlink'))
        os.symlink(os.path.join(doc, 'in.tex'), os.path.join(root, 'other', 'backlink.tex'))
        os.symlink(os.path.join(root, 'other', 'o.tex'), os.path.join(doc, 'x.tex'))
        l2t = LatexNodes2Text()
        l2t.set_tex_input_directory(doc, strict_input=True)
        names = {
            'inside': ['in.tex', 'in', 'sub/deep', './in.tex', 'sub/../in.tex', os.path.join(doc, 'in.tex')],
            'outside': ['../other/o.tex', '../other/o', os.path.join(root, 'other', 'o.tex'), '../doc-private/secret.tex',
                        '../doc-private/secret', 'link.tex', 'link', 'dirlink/o.tex', 'dirlink/o', '../doc', '', '.', 'sub/..',
                        'x', 'x.tex', '../doc.tex', '../other/backlink.tex/../o.tex'],
        }[case]
        for nm in names:
            got = l2t.read_input_file(nm)
            if case == 'inside':
                require(got == 'IN', 'real file system: inside name %r not read' % nm)
            else:
                require('OUT' not in got, 'real file system: outside content returned for %r' % nm)
        return True
    finally:
        shutil.rmtree(root, ignore_errors=True)


def pin_pre(var, sk):
    """exact length, '?' free, other characters pinned"""
    return ['len(%s) == %d' % (var, len(sk))] + ['%s[%d] == chr(%d)' % (var, i, ord(ch)) for i, ch in enumerate(sk) if ch != '?']


def conditions(tier):
    quick = tier == 'quick'
    T = 900 if quick else 7200
    conds = []
    SM = [dict(fn='x', r_name='/a/x', r_tex='/a/x.tex', r_latex='/b', e_plain=True, e_tex=False, e_latex=False),
          dict(fn='..', r_name='/', r_tex='/.tex', r_latex='/.latex', e_plain=False, e_tex=False, e_latex=False),
          dict(fn='', r_name='/a', r_tex='/a.tex', r_latex='/a.latex', e_plain=False, e_tex=True, e_latex=False),
          dict(fn='x', r_name='/ab', r_tex='/ab.tex', r_latex='/ab.latex', e_plain=True, e_tex=False, e_latex=False),
          dict(fn='x', r_name='/a/x', r_tex='/b', r_latex='/c', e_plain=False, e_tex=True, e_latex=False),
          dict(fn='x', r_name='/a/x', r_tex='/a/y', r_latex='/c', e_plain=False, e_tex=False, e_latex=True)]
    # Tractable formulation (DESIGN.md 3.7): the real path of the directory, the request and the placeholder targets are
    # concrete; the resolved target of the candidate that exists is ONE symbolic string of exact length with a pinned
    # skeleton and one free character (any character that keeps the path normalised).  Selectors = conditions.
    shapes = [('sib', '/a?', '/\x00'), ('in1', '/a/?', '/.\x00'), ('top', '/?', '/.\x00'), ('sibfile', '/a?/x', '/\x00'),
              ('in2', '/a/?x', '/\x00'), ('other', '/?/x', '/.\x00'), ('in3', '/a/x?', '/\x00'), ('deep', '/a/x/?', '/.\x00')]
    if True:
        shapes += [('sib2', '/a??', '/\x00'), ('in4', '/a/??', '/\x00'), ('top2', '/??', '/\x00')]
    P = 't: str'
    for rdir in ['/a', '/a/x']:
        for dn, d in (('abs', rdir), ('rel', 'a/'), ('empty', '')):
            for fn in ['x', '../a', '']:
                if quick and not ((rdir == '/a' and dn == 'abs' and fn != '../a') or (rdir == '/a/x' and dn == 'abs' and fn == 'x')):
                    continue
                for tag, sh, bad in shapes:
                    pre = pin_pre('t', sh) + ['t[%d] != chr(%d)' % (i, ord(b)) for i, ch in enumerate(sh) if ch == '?' for b in bad] + \
                        ['not_a_directory(t, %r)' % rdir]
                    nm = 'model_%s_%s_%s_' % (rdir.replace('/', 's'), dn, {'x': 'x', '../a': 'up', '': 'e'}[fn])
                    for which, call in (
                            ('plain', 'body_input(%r, %r, %r, t, "/zz/p.tex", "/zz/p.latex", True, False, False)' % (d, fn, rdir)),
                            ('tex', 'body_input(%r, %r, %r, "/a/p", t, "/zz/p.latex", False, True, False)' % (d, fn, rdir)),
                            ('texup', 'body_input(%r, %r, %r, "/a", t, "/zz/p.latex", False, True, False)' % (d, fn, rdir)),
                            ('latex', 'body_input(%r, %r, %r, "/a/p", "/zz/q", t, False, False, True)' % (d, fn, rdir))):
                        conds.append(Cond(nm + which + '_' + tag, P, pre, call, timeout=T,
                                          smoke=[dict(t=sh.replace('?', c)) for c in 'bx'], twin=False))
    for fs in (True, False):
        conds.append(Cond('model_seq_%s' % ('strict' if fs else 'lax'), 't: str, e_second: bool',
                          pin_pre('t', '/a?x') + ['t[2] != chr(0)'], 'body_input_seq(t, e_second, %r)' % fs, timeout=T, twin=False,
                          smoke=[dict(t='/a/x', e_second=True), dict(t='/a/x', e_second=False), dict(t='/abx', e_second=True)],
                          descr='history on one object: read under /b, then set_tex_input_directory(/a, strict) and read again'))
    conds.append(Cond('model_none', 't: str', pin_pre('t', '/a/?') + ['t[3] != chr(47)'],
                      "body_input('/a', 'x', '/a', t, '/y', '/z', False, False, False)", timeout=T, twin=False))
    conds.append(Cond('model_macro', 't: str', pin_pre('t', '/a?') + ['t[2] != chr(47)', 't[2] != chr(0)'],
                      "body_input('/a', 'x', '/a', t, '/y', '/z', True, False, False, True)", timeout=T,
                      smoke=[dict(t='/ab')], twin=False, descr='the same through latex_to_text of an \\input{x} macro'))
    conds.append(Cond('realfs', 'k: int', [], "body_realfs('inside') and body_realfs('outside')", timeout=60,
                      smoke=[dict(k=0)], twin=False, concrete_only=True,
                      descr='concrete validation of the model against a real directory layout (sibling-prefix directory, '
                            'symlinks in both directions, implicit extensions, .., absolute names)'))
    return conds


META = dict(
    functions=['pylatexenc.latex2text._inputlatexfile.read_latex_file', 'LatexNodes2Text.read_input_file/set_tex_input_directory/'
               '_input_node_simplify_repl', 'posixpath.join (real)'],
    bounds=dict(quick='directory real path /a (requests x and empty) and /a/x (request x), configured by its absolute name; the resolved target of the candidate that exists (plain name, name + .tex, name + .tex of the '
                      'directory itself, name + .latex: one condition each) ranges over 11 shapes (/a? /a/? /? /a?/x /a/?x /?/x /a/x? '
                      '/a/x/? /a?? /a/?? /??, ? = any character that keeps the path normalised); the other targets are concrete',
                thorough='both directories configured as absolute, relative and empty strings x requests x, ../a and empty'),
    stubs=['os.path.realpath: uninterpreted function whose answers for the paths the code asks about are harness parameters, '
           'constrained only by the documented contract (absolute, normalised, idempotent)',
           'os.path.exists/isfile: symbolic booleans per resolved target (links are followed)',
           'open: records the resolved target and returns IN/OUT', 'logging disabled'],
    outside=['non-POSIX path semantics', 'races between the check and the open', 'directories among the candidates (isfile = exists)'],
    assumptions=['the model over-approximates every layout (symlinks can make a request resolve anywhere); each known scenario is '
                 'validated on a real temporary directory tree by the realfs condition'],
)
