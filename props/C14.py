"""C14 Context database lookups follow category order under every build history."""
from vlib.driver import Cond
from vlib.common import Violation, require, fail
from pylatexenc.macrospec import LatexContextDb, MacroSpec, EnvironmentSpec, SpecialsSpec

ID = 'C14'
TITLE = 'Context database lookups follow category order under every build history'

CATS = ['A', 'B', 'C']
# one spec object per (kind, name, defining step) so that "which definition" is observable by identity
_SPECS = {}


def spec(kind, name, step):
    k = (kind, name, step)
    if k not in _SPECS:
        if kind == 'macros':
            _SPECS[k] = MacroSpec(name)
        elif kind == 'environments':
            _SPECS[k] = EnvironmentSpec(name)
        else:
            _SPECS[k] = SpecialsSpec(name)
    return _SPECS[k]


UNK = {'macros': MacroSpec(''), 'environments': EnvironmentSpec(''), 'specials': SpecialsSpec('?')}


def warmup():
    for step in range(6):
        for kind, names in (('macros', 'mn'), ('environments', 'mn'), ('specials', ['-', '--'])):
            for n in names:
                spec(kind, n, step)


def defs_for(bits, step):
    """bits 0..3 -> definitions of this step: bit0: macro m, environment m, specials '-'; bit1: specials '--', macro n."""
    d = {'macros': [], 'environments': [], 'specials': []}
    if bits == 1 or bits == 3:
        d['macros'].append(spec('macros', 'm', step))
        d['environments'].append(spec('environments', 'm', step))
        d['specials'].append(spec('specials', '-', step))
    if bits == 2 or bits == 3:
        d['specials'].append(spec('specials', '--', step))
        d['macros'].append(spec('macros', 'n', step))
    return d


class Model(object):
    """Reference: ordered list of (category, {kind: {name: spec}}) + unknown specs + frozen flag."""

    def __init__(self):
        self.cats = []
        self.unk = {'macros': None, 'environments': None, 'specials': None}
        self.frozen = False

    def names(self):
        return [c for c, _ in self.cats]

    def copy(self):
        m = Model()
        m.cats = [(c, {k: dict(v) for k, v in d.items()}) for c, d in self.cats]
        m.unk = dict(self.unk)
        m.frozen = self.frozen
        return m

    def lookup(self, kind, name):
        for c, d in self.cats:
            if name in d[kind]:
                return d[kind][name]
        return self.unk[kind]

    def longest_specials(self, s, pos):
        best = None
        for c, d in self.cats:
            for ch, sp in d['specials'].items():
                if s.startswith(ch, pos) and (best is None or len(ch) > len(best.specials_chars)):
                    best = sp
        return best


def to_dicts(defs):
    return {'macros': {x.macroname: x for x in defs['macros']},
            'environments': {x.environmentname: x for x in defs['environments']},
            'specials': {x.specials_chars: x for x in defs['specials']}}


def placement_kwargs(place, model, prev):
    """place 0..7 -> (kwargs for add_context_category, index in the model list per the documentation)."""
    names = model.names()
    n = len(names)
    if place == 0:
        return {}, n
    if place == 1:
        return {'prepend': True}, 0
    if place == 2 or place == 3 or place == 4:
        ref = 'A' if place == 2 else ('Z' if place == 3 else prev)
        idx = names.index(ref) if ref in names else 0
        return {'insert_before': ref}, idx
    ref = 'A' if place == 5 else ('Z' if place == 6 else prev)
    idx = names.index(ref) + 1 if ref in names else n
    return {'insert_after': ref}, idx


def check_db(db, model, what):
    """Every query on db agrees with (a) the reference model and (b) the db's own reported category order."""
    cats = db.categories()
    require(cats == model.names(), what + ': categories() differs from the documented placement')
    for kind, getter, names, it, attr, unk in (
            ('macros', db.get_macro_spec, ['m', 'n', 'zz'], db.iter_macro_specs, 'macroname', db.unknown_macro_spec),
            ('environments', db.get_environment_spec, ['m', 'zz'], db.iter_environment_specs, 'environmentname',
             db.unknown_environment_spec),
            ('specials', db.get_specials_spec, ['-', '--', 'zz'], db.iter_specials_specs, 'specials_chars',
             db.unknown_specials_spec)):
        reported = [list(it(categories=[c])) for c in cats]
        flat = [x for lst in reported for x in lst]
        exp_all = [sp for c, d in model.cats for sp in d[kind].values()]
        require(len(flat) == len(exp_all) and all(a is b for a, b in zip(flat, exp_all)),
                what + ': iter_*_specs() differs from the definitions added')
        got_all = list(it())
        require(len(got_all) == len(flat) and all(a is b for a, b in zip(got_all, flat)),
                what + ': iter_*_specs() without categories differs from the per-category listing')
        for nm in names:
            got = getter(nm)
            require(got is model.lookup(kind, nm), what + ': %s lookup of %r is not the first definition in '
                    'category order (or the unknown spec)' % (kind, nm))
            exp = unk
            for lst in reported:
                hit = [x for x in lst if getattr(x, attr) == nm]
                if hit:
                    exp = hit[0]
                    break
            require(got is exp, what + ': %s lookup of %r disagrees with the reported category order' % (kind, nm))
    for s, pos in (('a--b', 1), ('a-b', 1), ('--', 1), ('ab', 0)):
        got = db.test_for_specials(s, pos)
        exp = model.longest_specials(s, pos)
        if exp is None:
            require(got is None, what + ': test_for_specials found specials where none is defined')
        else:
            require(got is not None and got.specials_chars == exp.specials_chars,
                    what + ': test_for_specials did not return the longest match')


def check_frozen(db, what):
    for fn in (lambda: db.add_context_category('Q', macros=[]), lambda: db.set_unknown_macro_spec(None),
               lambda: db.set_unknown_environment_spec(None), lambda: db.set_unknown_specials_spec(None)):
        try:
            fn()
        except RuntimeError:
            continue
        fail(what + ': a frozen database accepted a modification')


def do_add(db, model, step, catsel, place, bits, prev):
    cat = CATS[step] if catsel == 0 else None
    defs = defs_for(bits, step)
    kw, idx = placement_kwargs(place, model, prev)
    db.add_context_category(cat, macros=defs['macros'], environments=defs['environments'],
                            specials=defs['specials'], **kw)
    if cat is None:
        # the generated name is whatever the database reports at the documented position
        names = db.categories()
        require(len(names) == len(model.cats) + 1, 'add_context_category(None) did not add exactly one category')
        cat = names[idx] if idx < len(names) else '?'
    model.cats.insert(idx, (cat, to_dicts(defs)))
    return cat


def do_derive(db, model, sel, step):
    """sel 0..8: one derivation; returns (new_db, new_model).  Parent must keep its answers (checked by caller)."""
    names = model.names()
    if sel == 0 or sel == 1 or sel == 2:
        if not db.frozen:
            db.freeze()
            model.frozen = True
        defs = defs_for(1 if sel == 0 else (3 if sel == 1 else 2), step)
        m2 = model.copy()
        m2.frozen = True
        if sel == 2:
            nd = db.extended_with(category='X%d' % step, **defs)
            m2.cats.insert(0, ('X%d' % step, to_dicts(defs)))
        else:
            nd = db.extended_with(category=None, **defs)
            newnames = nd.categories()
            if len(newnames) == len(names):
                # documented: the first category may be re-used when it is an internally created one
                require(len(names) > 0 and newnames == names, 'extended_with(None) changed the category list oddly')
                c0, d0 = m2.cats[0]
                dd = {k: dict(v) for k, v in d0.items()}
                for k, v in to_dicts(defs).items():
                    dd[k].update(v)
                m2.cats[0] = (c0, dd)
            else:
                require(len(newnames) == len(names) + 1 and newnames[1:] == names,
                        'extended_with(None) must add one category before all others')
                m2.cats.insert(0, (newnames[0], to_dicts(defs)))
        return nd, m2
    m2 = Model()
    m2.unk = dict(model.unk)
    if sel == 3:
        nd = db.filtered_context(keep_categories=['A', 'C'])
        m2.cats = [(c, {k: dict(v) for k, v in d.items()}) for c, d in model.cats if c in ('A', 'C')]
    elif sel == 4:
        nd = db.filtered_context(exclude_categories=['A', 'Z'])
        m2.cats = [(c, {k: dict(v) for k, v in d.items()}) for c, d in model.cats if c != 'A']
    elif sel == 5:
        nd = db.filtered_context(keep_which=['macros', 'specials'])
        m2.cats = [(c, {'macros': dict(d['macros']), 'environments': {}, 'specials': dict(d['specials'])})
                   for c, d in model.cats]
    elif sel == 6:
        nd = db.filtered_context()
        m2.cats = [(c, {k: dict(v) for k, v in d.items()}) for c, d in model.cats]
    else:
        keep = names[:1]
        nd = db.filtered_context(keep_categories=keep, keep_which=['environments'])
        m2.cats = [(c, {'macros': {}, 'environments': dict(d['environments']), 'specials': {}})
                   for c, d in model.cats if c in keep]
    return nd, m2


def body_adds(nadds, b1, u1, c2, p2, b2, c3, p3, b3):
    """nadds additions: A appended (bits b1, unknown specs set iff u1), then additions with arbitrary category kind,
    placement and definitions; every query at the end of the history (prefixes are covered by the shorter histories);
    finally freeze.  (Queries between symbolic decisions make CrossHair's path tree blow up, see DESIGN.md.)"""
    db = LatexContextDb()
    model = Model()
    if u1 == 1:
        db.set_unknown_macro_spec(UNK['macros'])
        db.set_unknown_environment_spec(UNK['environments'])
        db.set_unknown_specials_spec(UNK['specials'])
        model.unk = dict(UNK)
    # intermediate queries are only *recorded* here and compared at the end of the history (comparing between symbolic
    # decisions makes the path tree blow up): a stale cache filled by an early query must not change later answers
    early = []

    def probe():
        early.append((db.test_for_specials('a--b', 1), model.longest_specials('a--b', 1),
                      db.get_macro_spec('m'), model.lookup('macros', 'm')))
    prev = do_add(db, model, 0, 0, 0, b1, 'A')
    probe()
    if nadds >= 2:
        prev = do_add(db, model, 1, c2, p2, b2, prev)
        probe()
    if nadds >= 3:
        prev = do_add(db, model, 2, c3, p3, b3, prev)
    for got_s, exp_s, got_m, exp_m in early:
        if exp_s is None:
            require(got_s is None, 'intermediate database: test_for_specials found specials where none is defined')
        else:
            require(got_s is not None and got_s.specials_chars == exp_s.specials_chars,
                    'intermediate database: test_for_specials did not return the longest match')
        require(got_m is exp_m, 'intermediate database: macro lookup is not the first definition in category order')
    check_db(db, model, 'after the additions')
    db.freeze()
    check_frozen(db, 'after freeze')
    check_db(db, model, 'after freeze')
    return True


def body_derive(b1, c2, p2, b2, d1, d2):
    """Two additions, then a derivation of a derivation; parents keep their answers; derived frozen dbs refuse changes."""
    db = LatexContextDb()
    model = Model()
    db.set_unknown_macro_spec(UNK['macros'])
    model.unk['macros'] = UNK['macros']
    prev = do_add(db, model, 0, 0, 0, b1, 'A')
    prev = do_add(db, model, 1, c2, p2, b2, prev)
    check_db(db, model, 'base')
    try:
        nd1, m1 = do_derive(db, model, d1, 3)
    except Violation:
        raise
    except Exception as e:
        fail('first derivation raised %s' % type(e).__name__)
    check_db(db, model, 'parent after first derivation')
    check_db(nd1, m1, 'first derived database')
    if nd1.frozen:
        check_frozen(nd1, 'first derived database')
    try:
        nd2, m2 = do_derive(nd1, m1, d2, 4)
    except Violation:
        raise
    except Exception as e:
        fail('derivation of a derived database raised %s' % type(e).__name__)
    check_db(db, model, 'grand-parent after second derivation')
    check_db(nd1, m1, 'parent after second derivation')
    check_db(nd2, m2, 'second derived database')
    return True


def conditions(tier):
    quick = tier == 'quick'
    conds = []
    T = 900 if quick else 14400
    rng = lambda v, n: '0 <= %s < %d' % (v, n)
    fix = lambda v, k: '%s == %d' % (v, k)
    # family 1: additions; histories of 1, 2 and 3 additions
    P7 = 'b1: int, u1: int, c2: int, p2: int, b2: int, c3: int, p3: int, b3: int'
    first = [fix('b1', 3), fix('u1', 1)] if quick else [rng('b1', 4), rng('u1', 2)]
    conds.append(Cond('adds1', 'b1: int, u1: int', [rng('b1', 4), rng('u1', 2)], 'body_adds(1, b1, u1, 0, 0, 0, 0, 0, 0)',
                      timeout=T, twin=False, smoke=[dict(b1=3, u1=1), dict(b1=0, u1=0)]))
    conds.append(Cond('adds2', 'b1: int, u1: int, c2: int, p2: int, b2: int',
                      [rng('b1', 4), rng('u1', 2), rng('c2', 2), rng('p2', 8), rng('b2', 4)],
                      'body_adds(2, b1, u1, c2, p2, b2, 0, 0, 0)', timeout=T, twin=False,
                      smoke=[dict(b1=3, u1=1, c2=0, p2=5, b2=3), dict(b1=1, u1=0, c2=1, p2=2, b2=1),
                             dict(b1=1, u1=0, c2=0, p2=6, b2=1)]))
    for p2 in range(8):
        pre = first + [rng('c2', 2), fix('p2', p2), rng('b2', 4), rng('c3', 2), rng('p3', 8), rng('b3', 4)]
        conds.append(Cond('adds3_p2_%d' % p2, P7, pre, 'body_adds(3, b1, u1, c2, p2, b2, c3, p3, b3)', timeout=T,
                          twin=False, cost=3,
                          smoke=[dict(b1=3, u1=1, c2=0, p2=p2, b2=3, c3=1, p3=5, b3=1),
                                 dict(b1=3, u1=1, c2=1, p2=p2, b2=1, c3=0, p3=4, b3=2),
                                 dict(b1=3, u1=1, c2=0, p2=p2, b2=1, c3=0, p3=2, b3=3)],
                          descr='A appended; 2nd addition with placement %d; 3rd addition free' % p2))
    # family 2: derivations of derivations
    for d1 in range(8):
        for d2 in range(8):
            pre = [rng('c2', 2), rng('p2', 8)] + ([fix('b1', 3), fix('b2', 3)] if quick else [rng('b1', 4), rng('b2', 4)])
            conds.append(Cond('derive_d%d%d' % (d1, d2), 'b1: int, c2: int, p2: int, b2: int', pre,
                              'body_derive(b1, c2, p2, b2, %d, %d)' % (d1, d2), timeout=T, twin=False,
                              smoke=[dict(b1=3, c2=1, p2=1, b2=3), dict(b1=3, c2=0, p2=5, b2=1)],
                              descr='2 additions, derivation %d, then derivation %d' % (d1, d2)))
    return conds


META = dict(
    functions=['LatexContextDb.add_context_category (append/prepend/insert_before/insert_after, named and auto categories)',
               'set_unknown_macro_spec/set_unknown_environment_spec/set_unknown_specials_spec', 'freeze',
               'filtered_context (keep_categories, exclude_categories, keep_which)', 'extended_with (named, auto, re-used auto)',
               'get_macro_spec/get_environment_spec/get_specials_spec/test_for_specials/categories/iter_*_specs'],
    bounds=dict(quick='as thorough, with (3-addition and derivation histories) the first category defining every name and unknown specs '
                      'set, and (derivation histories) the second addition defining every name: then 2 additions x {named, auto category} x 8 placements (append, prepend, '
                      'before/after A, before/after a missing category, before/after the previously added one) x 4 definition '
                      'sets x unknown specs set/unset, queried after every step; and 2 additions followed by every pair of 8 '
                      'derivations (extended_with named/auto x2, filtered_context x5); names {m, n, zz}, specials {-, --}',
                thorough='all histories: A appended (4 definition sets, unknown specs set/unset), then 2 additions and the '
                         'derivation pairs as in quick'),
    stubs=['logging disabled'],
    outside=['histories with more than 3 additions or more than 2 derivations', 'larger name universes',
             'create_class subclasses'],
    assumptions=['placement semantics taken from the add_context_category docstring (missing reference: beginning for '
                 'insert_before, end for insert_after)'],
)
