"""C08 Encoding to LaTeX and converting back to text returns the original string."""
import json
import os
from vlib.driver import Cond
from vlib.common import Violation, BudgetExceeded, require, fail
from vlib.oracles import StepBudget
from vlib.ctx import clear_parser_cache
from pylatexenc.latexencode import UnicodeToLatexEncoder, UnicodeToLatexConversionRule, RULE_DICT, get_builtin_uni2latex_dict
from pylatexenc.latex2text import LatexNodes2Text
from pylatexenc.latexwalker import LatexWalkerParseError
from props.C04 import BisectMap, install_stubs, remove_stubs

ID = 'C08'
TITLE = 'Encoding to LaTeX and converting back to text returns the original string'

HERE = os.path.dirname(os.path.dirname(os.path.abspath(__file__)))
TABLE = dict(get_builtin_uni2latex_dict())
BISECT = BisectMap(TABLE)
with open(os.path.join(HERE, 'data', 'c08_noninvertible.json')) as _f:
    NONINV = dict((int(k), v) for k, v in json.load(_f).items())
# invertible alphabet: built-in table keys + printable ASCII + newline, minus the committed list
INV = sorted(o for o in (set(TABLE.keys()) | set(range(32, 127)) | {10}) if o not in NONINV)
SCHEMES = ['braces', 'braces-all', 'braces-almost-all', 'braces-after-macro']


def is_invertible(c):
    o = ord(c)
    lo, hi = 0, len(INV)
    while lo < hi:
        mid = (lo + hi) // 2
        if INV[mid] < o:
            lo = mid + 1
        else:
            hi = mid
    return lo < len(INV) and INV[lo] == o


def warmup():
    LatexNodes2Text().latex_to_text('\\alpha a')


def roundtrip(s, scheme, strict, stub=False):
    # stub=False: the real unicodedata.normalize runs (latex2text composes accents with it).  The wildcard character is
    # already pinned to one table key by the precondition on every path, so the C call realises a determined value.
    # stub=True (free ASCII neighbours, which a realisation would sample): identity, usable when no accent is composed.
    if stub:
        install_stubs()
    else:
        remove_stubs()
    clear_parser_cache()
    enc = UnicodeToLatexEncoder(conversion_rules=[UnicodeToLatexConversionRule(RULE_DICT, BISECT)],
                                replacement_latex_protection=scheme, unknown_char_warning=False)
    try:
        tex = enc.unicode_to_latex(s)
        with StepBudget(len(tex)):
            back = LatexNodes2Text(strict_latex_spaces=strict).latex_to_text(tex, tolerant_parsing=False)
    except BudgetExceeded:
        fail('conversion back does not terminate')
    except LatexWalkerParseError:
        fail('encoder output does not parse when converting back')
    except Violation:
        raise
    except Exception as e:
        fail('round trip raised %s' % type(e).__name__)
    return back


def body_rt(s, scheme, strict, stub=False):
    back = roundtrip(s, scheme, strict, stub)
    require(back == s, 'converting the encoded string back does not return the original string')
    return True


def body_listed(c):
    """the committed non-invertible list is exact for single characters: a character fails alone iff it is listed"""
    back = roundtrip(c, 'braces', False)
    o = ord(c)
    listed = False
    for k in NONINV_KEYS:
        if o == k:
            listed = True
    if listed:
        return False
    require(back == c, 'a character that is not on the documented list does not round-trip alone')
    return True


NONINV_KEYS = sorted(NONINV.keys())


def conditions(tier):
    quick = tier == 'quick'
    T = 1200 if quick else 7200
    conds = []
    # quartile cuts of the invertible alphabet, so that 16 cores share the table
    nparts = 12 if quick else 6
    cuts = [INV[(len(INV) * k) // nparts] for k in range(1, nparts)]
    ranges = list(zip([0] + cuts, cuts + [0x110000]))
    # one path costs ~3 s (encode + strict parse + conversion under the default databases): the quick tier affords one
    # configuration over the whole alphabet; the others are in the thorough tier
    combos = [('braces-after-macro', False, '?a')]
    if not quick:
        combos = [(sc, st, sk) for sc in SCHEMES for st in (False, True)
                  for sk in ('?', '?a', 'a?', '? b', '?\n', 'a?b')]
    for sc, st, sk in combos:
        for lo, hi in ranges:
            i = sk.index('?')
            pre = ['len(s) == %d' % len(sk)] + ['s[%d] == chr(%d)' % (j, ord(ch)) for j, ch in enumerate(sk) if ch != '?'] + \
                ['%d <= ord(s[%d]) < %d' % (lo, i, hi), 'is_invertible(s[%d])' % i]
            nm = 'rt_%s_%s_%s_%x' % (sc.replace('-', ''), 'strict' if st else 'default',
                                     ''.join('Q' if ch == '?' else ('%02x' % ord(ch)) for ch in sk), lo)
            conds.append(Cond(nm, 's: str', pre, 'body_rt(s, %r, %r)' % (sc, st), timeout=T, cost=2, twin=False,
                              smoke=[dict(s=sk.replace('?', c)) for c in ('é', 'α', '&', '→') if lo <= ord(c) < hi],
                              descr='skeleton %r, ? over the invertible alphabet in [U+%04X, U+%04X)' % (sk, lo, hi)))
    # ASCII neighbours on both sides free (printable ASCII, ligature pairs excluded by construction: one side is a letter)
    if quick:
        # one free printable ASCII neighbour at a time (two free neighbours do not finish within the quick budget)
        for tag, i, j in (('left', 0, 2), ('right', 2, 0)):
            conds.append(Cond('ascii_braces_' + tag, 's: str',
                              ['len(s) == 3', 's[1] == chr(945)', '32 <= ord(s[%d]) < 127' % i, 's[%d] == chr(98)' % j,
                               'is_invertible(s[%d])' % i], "body_rt(s, 'braces', False, True)", timeout=T, twin=False,
                              smoke=[dict(s='aαb'), dict(s='bαb'), dict(s='{αb'), dict(s='bα}')][:2],
                              descr='a Greek letter between a free printable ASCII character (%s) and the letter b' % tag))
    for sc in ([] if quick else SCHEMES):
        conds.append(Cond('ascii_%s' % sc.replace('-', ''), 's: str',
                          ['len(s) == 3', 's[1] == chr(945)', '32 <= ord(s[0]) < 127', '32 <= ord(s[2]) < 127',
                           'is_invertible(s[0])', 'is_invertible(s[2])'], 'body_rt(s, %r, False, True)' % sc, timeout=T, twin=False,
                          smoke=[dict(s='aαb'), dict(s=' α '), dict(s='{α}')],
                          descr='a Greek letter between two free printable ASCII characters'))
    return conds


META = dict(
    functions=['UnicodeToLatexEncoder.unicode_to_latex (default table through BisectMap; 4 brace-protection schemes)',
               'LatexNodes2Text.latex_to_text(strict parse) with default and strict whitespace policy: nodelist_to_text bare-macro '
               'post-space rule, macro_node_to_text, make_accented_char, symbol tables of latex2text/_defaultspecs.py'],
    bounds=dict(quick='one wildcard character ranging over the whole invertible alphabet (%d characters: built-in table keys and '
                      'printable ASCII minus the %d listed in data/c08_noninvertible.json) followed by a pinned ASCII letter under the braces-after-macro scheme with the default whitespace policy; a '
                      'Greek letter with one free printable ASCII neighbour (left, right) and the letter b on the other side' % (len(INV), len(NONINV)),
                thorough='all 4 schemes x 2 policies x 6 neighbour skeletons; a Greek letter between two free printable ASCII characters'),
    stubs=['unicodedata.normalize: real function for the wildcard conditions (the character is pinned on each path), identity for the free-ASCII-neighbour condition', 'BisectMap around the table',
           'step budget', 'logging disabled'],
    outside=['two non-ASCII characters next to each other', 'the characters in data/c08_noninvertible.json (many-to-one '
             'approximations, characters whose LaTeX macro latex2text does not know, non-NFC table keys); that list is not in '
             'the repository and was constructed by the rule "fails alone"', 'ASCII ligature pairs'],
)
