"""C16 The pylatexenc-2 compatible API gives the same results as the new parsers."""
import warnings
from vlib.driver import Cond
from vlib.common import Violation, BudgetExceeded, require, fail
from vlib.oracles import dump, StepBudget
from vlib.ctx import make_ctx_s, clear_parser_cache
from vlib.parsefam import hole_variants, skel_pre, skel_fill, BS, limit_holes
from pylatexenc.latexwalker import LatexWalker, LatexWalkerParseError, LatexWalkerEndOfStream
from pylatexenc.latexnodes import LatexTokenReader, ParsingState
from pylatexenc.latexnodes import parsers as P
from pylatexenc.latexnodes import nodes as N
from pylatexenc import macrospec as MS

ID = 'C16'
TITLE = 'The pylatexenc-2 compatible API gives the same results as the new parsers'

warnings.simplefilter('ignore')


def walker(s, tolerant=False):
    return LatexWalker(s, latex_context=make_ctx_s(True), tolerant_parsing=tolerant)


def new_run(s, pos, parser, ps_kw=None, tolerant=False):
    """the pylatexenc-3 way: parse_content(parser) from a token reader placed at pos.
    returns ('ok', dump, node_pos, reader_pos) | ('err',) """
    w = walker(s, tolerant)
    ps = w.make_parsing_state()
    if ps_kw:
        ps = ps.sub_context(**ps_kw)
    tr = w.make_token_reader(pos=pos)
    try:
        with StepBudget(len(s)):
            nodes, _ = w.parse_content(parser, token_reader=tr, parsing_state=ps)
    except LatexWalkerParseError:
        return ('err',)
    except BudgetExceeded:
        fail('new-style parse does not terminate')
    return ('ok', nodes, tr.cur_pos())


def legacy(fn):
    """run a legacy entry point: ('ok', result) | ('err',)"""
    try:
        with warnings.catch_warnings():
            warnings.simplefilter('ignore')
            with StepBudget(200):
                return ('ok', fn())
    except LatexWalkerParseError:
        return ('err',)
    except BudgetExceeded:
        fail('legacy entry point does not terminate')
    except Violation:
        raise
    except Exception as e:
        fail('legacy entry point raised %s' % type(e).__name__)


def body_nodes(s, pos, variant):
    """get_latex_nodes(pos, <stop condition>) vs LatexGeneralNodesParser with the equivalent callbacks."""
    kw = {}
    ps_kw = None
    stop_tok = None
    if variant == 'plain':
        pass
    elif variant == 'brace':
        kw = dict(stop_upon_closing_brace='}')
        stop_tok = lambda t: t.tok == 'brace_close' and t.arg == '}'
    elif variant == 'bracket':
        kw = dict(stop_upon_closing_brace=']')
        stop_tok = lambda t: t.tok == 'brace_close' and t.arg == ']'
        ps_kw = dict(latex_group_delimiters=[('{', '}'), ('[', ']')])
    elif variant == 'endenv':
        kw = dict(stop_upon_end_environment='E')
        stop_tok = lambda t: t.tok == 'end_environment' and t.arg == 'E'
    elif variant == 'math':
        kw = dict(stop_upon_closing_mathmode='$')
        stop_tok = lambda t: t.tok in ('mathmode_inline', 'mathmode_display') and t.arg == '$'
        ps_kw = dict(in_math_mode=True, math_mode_delimiter='$')
    elif variant == 'max1':
        kw = dict(read_max_nodes=1)
    elif variant == 'max2':
        kw = dict(read_max_nodes=2)
    rmax = kw.get('read_max_nodes')
    w = walker(s)
    lps = w.make_parsing_state()
    if variant == 'math':
        lps = lps.sub_context(**ps_kw)
    a = legacy(lambda: w.get_latex_nodes(pos=pos, parsing_state=lps, **kw))
    parser = P.LatexGeneralNodesParser(
        stop_token_condition=stop_tok,
        stop_nodelist_condition=(lambda nl: len(nl) >= rmax) if rmax is not None else None,
        require_stop_condition_met=stop_tok is not None,
        handle_stop_condition_token=lambda token, latex_walker, token_reader, parsing_state: token_reader.move_past_token(token),
    )
    b = new_run(s, pos, parser, ps_kw)
    require(a[0] == b[0], 'get_latex_nodes fails exactly when the equivalent LatexGeneralNodesParser fails')
    if a[0] == 'err':
        return False
    nodes, p, l = a[1]
    nnodes, rpos = b[1], b[2]
    require(dump(nodes) == dump(nnodes), 'get_latex_nodes returns different nodes than LatexGeneralNodesParser')
    require(p == nnodes.pos, 'get_latex_nodes: pos differs from the node list position')
    require(p is None or p + l == rpos, 'get_latex_nodes: pos+len differs from the reader position after parsing')
    return len(nnodes) >= 1


def body_expression(s, pos):
    w = walker(s)
    a = legacy(lambda: w.get_latex_expression(pos=pos, strict_braces=True))
    b = new_run(s, pos, P.LatexExpressionParser(return_full_node_list=False, single_token_requiring_arg_is_error=True,
                                                allow_pre_space=True, allow_pre_comments=True))
    require(a[0] == b[0], 'get_latex_expression fails exactly when LatexExpressionParser fails')
    if a[0] == 'err':
        return False
    node, p, l = a[1]
    nnode = b[1]
    if nnode is None:
        require(node is None and (p, l) == (pos, 0), 'get_latex_expression: empty result expected')
        return False
    da, db = dump(node), dump(nnode)
    if isinstance(nnode, (N.LatexMacroNode, N.LatexSpecialsNode, N.LatexEnvironmentNode)):
        da, db = da[:-1], db[:-1]      # documented difference: nodeargd is None in the legacy result
    require(da == db, 'get_latex_expression returns a different node than LatexExpressionParser')
    require((p, l) == (nnode.pos, nnode.pos_end - nnode.pos), 'get_latex_expression: (pos, len) differ from the node span')
    return True


def body_group(s, pos, bt):
    w = walker(s)
    a = legacy(lambda: w.get_latex_braced_group(pos=pos, brace_type=bt))
    delims = {'{': ('{', '}'), '[': ('[', ']'), '(': ('(', ')'), '<': ('<', '>')}.get(bt, tuple(bt))
    b = new_run(s, pos, P.LatexDelimitedGroupParser(delimiters=delims, allow_pre_space=True))
    require(a[0] == b[0], 'get_latex_braced_group fails exactly when LatexDelimitedGroupParser fails')
    if a[0] == 'err':
        return False
    node, p, l = a[1]
    nnode = b[1]
    if nnode is None:
        require(node is None, 'get_latex_braced_group: no node expected')
        return False
    require(dump(node) == dump(nnode), 'get_latex_braced_group returns a different node than LatexDelimitedGroupParser')
    require((p, l) == (nnode.pos, nnode.pos_end - nnode.pos) and p + l == b[2],
            'get_latex_braced_group: (pos, len) differ from the node span / reader position')
    return True


def body_env(s, pos, name):
    w = walker(s)
    a = legacy(lambda: w.get_latex_environment(pos=pos, environmentname=name))
    b = new_run(s, pos, P.LatexSingleNodeParser())
    ok_new = (b[0] == 'ok' and b[1] is not None and len(b[1]) == 1 and isinstance(b[1][0], N.LatexEnvironmentNode)
              and (name is None or b[1][0].environmentname == name))
    require((a[0] == 'ok') == ok_new, 'get_latex_environment succeeds exactly when LatexSingleNodeParser yields that environment')
    if a[0] == 'err':
        return False
    node, p, l = a[1]
    require(dump(node) == dump(b[1][0]), 'get_latex_environment returns a different node')
    require((p, l) == (node.pos, node.pos_end - node.pos), 'get_latex_environment: (pos, len) differ from the node span')
    return True


def body_optarg(s, pos):
    w = walker(s)
    a = legacy(lambda: w.get_latex_maybe_optional_arg(pos=pos))
    b = new_run(s, pos, P.LatexOptionalSquareBracketsParser())
    require(a[0] == b[0], 'get_latex_maybe_optional_arg fails exactly when LatexOptionalSquareBracketsParser fails')
    if a[0] == 'err':
        return False
    if b[1] is None:
        require(a[1] is None, 'get_latex_maybe_optional_arg must return None when no optional argument is present')
        return False
    require(a[1] is not None, 'get_latex_maybe_optional_arg returned None although an optional argument is present')
    node, p, l = a[1]
    require(dump(node) == dump(b[1]) and (p, l) == (b[1].pos, b[1].pos_end - b[1].pos),
            'get_latex_maybe_optional_arg differs from LatexOptionalSquareBracketsParser')
    return True


def body_token(s, pos, variant):
    w = walker(s)
    kw = {}
    ps_kw = {}
    if variant == 'brackets':
        kw = dict(brackets_are_chars=False)
        ps_kw = dict(latex_group_delimiters=[('{', '}'), ('[', ']')])
    elif variant == 'noenv':
        kw = dict(environments=False)
        ps_kw = dict(enable_environments=False)
    elif variant == 'angle':
        kw = dict(include_brace_chars=[('<', '>')])
        ps_kw = dict(latex_group_delimiters=[('{', '}'), ('<', '>')])

    def leg():
        try:
            return w.get_token(pos=pos, **kw)
        except LatexWalkerEndOfStream:
            return 'EOS'
    a = legacy(leg)
    w2 = walker(s)
    ps = w2.make_parsing_state()
    if ps_kw:
        ps = ps.sub_context(**ps_kw)
    tr = LatexTokenReader(s, tolerant_parsing=False)
    tr.move_to_pos_chars(pos)
    try:
        t = tr.peek_token(ps)
        b = ('ok', t)
    except LatexWalkerEndOfStream:
        b = ('ok', 'EOS')
    except LatexWalkerParseError:
        b = ('err',)
    require(a[0] == b[0], 'get_token fails exactly when peek_token fails')
    if a[0] == 'err':
        return False
    ta, tb = a[1], b[1]
    if isinstance(tb, str) or isinstance(ta, str):
        require(isinstance(ta, str) and isinstance(tb, str), 'get_token / peek_token disagree on end of stream')
        return False
    key = lambda t: (t.tok, t.arg if t.tok != 'specials' else t.arg.specials_chars, t.pos, t.pos_end, t.pre_space,
                     getattr(t, 'post_space', ''))
    require(key(ta) == key(tb), 'get_token returns a different token than peek_token')
    return True


def spec_dump(s, spec_factory):
    clear_parser_cache()
    db = MS.LatexContextDb()
    spec_factory(db)
    try:
        with StepBudget(len(s)):
            nl, _ = LatexWalker(s, latex_context=db, tolerant_parsing=False).parse_content(P.LatexGeneralNodesParser())
    except LatexWalkerParseError:
        return ('err',)
    except BudgetExceeded:
        fail('parse does not terminate')
    except Violation:
        raise
    except Exception as e:
        return ('exc', type(e).__name__)
    return strip_ps(dump(nl))


def strip_ps(d):
    return d


def body_spellings(s, argspec, which='both', quick=False):
    """every legacy and new spelling of the same macro / environment signature parses identically."""
    lst = list(argspec)
    with warnings.catch_warnings():
        warnings.simplefilter('ignore')
        spell = {
            'positional': lambda db: db.add_context_category('c', macros=[MS.MacroSpec('n', argspec)]),
            'spec_list': lambda db: db.add_context_category('c', macros=[MS.MacroSpec('n', arguments_spec_list=lst)]),
            'args_parser_str': lambda db: db.add_context_category('c', macros=[MS.MacroSpec('n', args_parser=argspec)]),
            'args_parser_obj': lambda db: db.add_context_category(
                'c', macros=[MS.MacroSpec('n', args_parser=MS.MacroStandardArgsParser(argspec))]),
            'std_macro': lambda db: db.add_context_category('c', macros=[MS.std_macro('n', argspec)]),
            'std_macro_tuple': lambda db: db.add_context_category('c', macros=[MS.std_macro(('n', argspec))]),
        }
        ref = spec_dump(s, spell['spec_list'])
        items = list(spell.items())
        if quick:
            items = [kv for kv in items if kv[0] in ('args_parser_str', 'args_parser_obj', 'std_macro')]
        for k, f in (items if which in ('both', 'macro') else []):
            got = spec_dump(s, f)
            require(got == ref, 'macro signature given as %s parses differently from arguments_spec_list' % k)
        es = BS + 'begin{n}' + s[2:] + BS + 'end{n}'
        espell = {
            'spec_list': lambda db: db.add_context_category('c', environments=[MS.EnvironmentSpec('n', arguments_spec_list=lst)]),
            'positional': lambda db: db.add_context_category('c', environments=[MS.EnvironmentSpec('n', argspec)]),
            'args_parser_str': lambda db: db.add_context_category('c', environments=[MS.EnvironmentSpec('n', args_parser=argspec)]),
            'std_environment': lambda db: db.add_context_category('c', environments=[MS.std_environment('n', argspec)]),
        }
        eref = spec_dump(es, espell['spec_list']) if which in ('both', 'env') else None
        for k, f in (espell.items() if which in ('both', 'env') else []):
            require(spec_dump(es, f) == eref, 'environment signature given as %s parses differently from arguments_spec_list' % k)
    return isinstance(ref, list)


ARGSPECS = ['', '{', '[', '*', '{{', '[{', '*{', '*[{', '[[{', '{[', '{*', '*[', '{{{', '[{{', '**{', '*[[{'][:]


def conditions(tier):
    quick = tier == 'quick'
    T = 900 if quick else 3600
    conds = []
    n = 2 if quick else 3
    PP = 's: str, pos: int'
    base = ['0 <= pos <= len(s)']
    # quick: free strings for 4 of the 7 stop conditions, each split by the first character (disjoint, covering; the empty
    # string belongs to the first part); the other three keep their skeleton conditions below
    for v in (('plain', 'bracket', 'endenv', 'max1') if quick else ('plain', 'brace', 'bracket', 'endenv', 'math', 'max1', 'max2')):
        for tag, ppre in ([('_lo', 'len(s) == 0 or ord(s[0]) < 92'), ('_hi', 'len(s) > 0 and ord(s[0]) >= 92')] if quick else [('', None)]):
            conds.append(Cond('nodes_%s_le%d%s' % (v, n, tag), PP, ['len(s) <= %d' % n] + base + ([ppre] if ppre else []),
                              'body_nodes(s, pos, %r)' % v, timeout=T, twin=False,
                              smoke=[dict(s=x, pos=p) for x, p in (('a}b', 0), ('a]', 1), ('x$y', 0), ('{a}b', 0),
                                                                   ('a' + BS + 'end{E}', 0), ('}', 1), ('', 0))] if tag != '_hi' else []))
    skn = [('endenv', '?' + BS + 'end{F}?' + BS + 'end{E}'), ('brace', 'x?}?'), ('bracket', '?]?'), ('endenv', '?' + BS + 'end{E}?'), ('math', '?$?'), ('max1', '{?}?'),
           ('max2', BS + 'a{?}?x'), ('plain', BS + 'b[?]{?}?')]
    for vi, (v, sk) in enumerate(skn):
        conds.append(Cond('nodes_%s_%d_skel' % (v, vi), PP, skel_pre(sk) + base, 'body_nodes(s, pos, %r)' % v, timeout=T, twin=False,
                          cost=2, smoke=[dict(s=skel_fill(sk), pos=p) for p in (0, 1)]))
    conds.append(Cond('expr_le%d' % n, PP, ['len(s) <= %d' % n] + base, 'body_expression(s, pos)', timeout=T, twin=False,
                      smoke=[dict(s=x, pos=0) for x in ('a', '{a}', BS + 'a', ' x', '}', '%c\nx', '$', BS + 'd', '~')]))
    for nm, sk in [('grp', '?{?}?'), ('mac', '?' + BS + 'd?'), ('cmt', '%?\n?{?}'), ('end', '?' + BS + 'end{E}'),
                   ('begin', '?' + BS + 'begin{E}?'), ('endx', BS + 'end?')]:
        conds.append(Cond('expr_' + nm, PP, skel_pre(sk) + base, 'body_expression(s, pos)', timeout=T, twin=False, cost=2,
                          smoke=[dict(s=skel_fill(sk), pos=p) for p in (0, 1)]))
    for bt in (['{', '['] if quick else ['{', '[', '(', '<', '()']):
        conds.append(Cond('group_%d%s_le%d' % (ord(bt[0]), 'p' if len(bt) == 2 else '', n), PP, ['len(s) <= %d' % n] + base, 'body_group(s, pos, %r)' % bt,
                          timeout=T, twin=False, smoke=[dict(s=x, pos=0) for x in ('{a}', '[a]', ' {', '{', 'a', '(a)', '<a>')]))
        sk = '?' + bt[0] + '?' + {'{': '}', '[': ']', '(': ')', '<': '>'}[bt[0]] + '?'
        conds.append(Cond('group_%d%s_skel' % (ord(bt[0]), 'p' if len(bt) == 2 else ''), PP, skel_pre(sk) + base, 'body_group(s, pos, %r)' % bt, timeout=T,
                          twin=False, cost=2, smoke=[dict(s=skel_fill(sk), pos=p) for p in (0, 1)]))
    for name in ('E', None):
        sk = '?' + BS + 'begin{E}?' + BS + 'end{E}?'
        conds.append(Cond('env_%s' % name, PP, skel_pre(sk) + base, 'body_env(s, pos, %r)' % name, timeout=T, twin=False, cost=2,
                          smoke=[dict(s=skel_fill(sk), pos=p) for p in (0, 1, 2)]))
    conds.append(Cond('env_other', PP, skel_pre(BS + 'begin{F}[?]{?}' + BS + 'end{F}') + base, "body_env(s, pos, 'E')", timeout=T,
                      twin=False, smoke=[dict(s=BS + 'begin{F}[a]{b}' + BS + 'end{F}', pos=0)]))
    conds.append(Cond('optarg_le%d' % n, PP, ['len(s) <= %d' % n] + base, 'body_optarg(s, pos)', timeout=T, twin=False,
                      smoke=[dict(s=x, pos=0) for x in ('[a]', ' [a', 'a', '[', '[]', '{a}')]))
    conds.append(Cond('optarg_skel', PP, skel_pre('?[?]?') + base, 'body_optarg(s, pos)', timeout=T, twin=False, cost=2,
                      smoke=[dict(s='x[y]z', pos=p) for p in (0, 1)]))
    for v in ('plain', 'brackets', 'noenv', 'angle'):
        conds.append(Cond('token_%s_le%d' % (v, n), PP, ['len(s) <= %d' % n] + base, 'body_token(s, pos, %r)' % v,
                          timeout=T, twin=False, smoke=[dict(s=x, pos=0) for x in ('a', '[', '<', BS + 'a ', ' %c', '', BS)]))
    conds.append(Cond('token_noenv_skel', PP, skel_pre('?' + BS + 'begin{?}') + base, "body_token(s, pos, 'noenv')", timeout=T,
                      twin=False, smoke=[dict(s=' ' + BS + 'begin{a}', pos=p) for p in (0, 1)]))
    # signature spellings: argument string symbolic through a selector over all strings over {*,[,{} up to length 3 (4)
    specs = [a for a in ARGSPECS if len(a) <= (3 if quick else 4)]
    if quick:
        specs = ['{', '[{', '*{', '{[', '{*', '*[{', '[[{']
    for i, a in enumerate(specs):
        sk = BS + 'n' + ('??' if quick else '???')
        alpha = '*[{a ' if quick else '*[]{}a '
        for which in (('macro',) if (quick and i != 3) else ('macro', 'env')):
            conds.append(Cond('spell_%s_%d' % (which, i), 's: str', skel_pre(sk) + ['all(any(c == k for k in %r) for c in s[2:])' % alpha],
                          'body_spellings(s, %r, %r, %r)' % (a, which, quick), timeout=T, twin=False, cost=2,
                          smoke=[dict(s=BS + 'n' + t) for t in ('*[a', '{a}', '[a]', 'a a', '{}{', '* {', '**', '*{')],
                          descr='argument string %r through the legacy and new spellings; document \\n + 2-3 characters over %r' % (a, alpha)))
    if quick:
        # skeleton conditions: start position 0 or 1 only, first hole free (others pinned)
        for c in conds:
            if c.name.endswith('_skel') or c.name.startswith('expr_') and not c.name.startswith('expr_le') or c.name.startswith('env_'):
                c.pre = [p for p in c.pre if p != '0 <= pos <= len(s)'] + ['0 <= pos <= 1']
                seen = 0
                newpre = []
                L = int(c.pre[0].split('==')[1])
                pinned = set(int(p.split('[')[1].split(']')[0]) for p in c.pre if p.startswith('s['))
                free = [k for k in range(L) if k not in pinned]
                for k in free[1:]:
                    c.pre.append('s[%d] == chr(120)' % k)
                if c.name in ('env_E', 'env_None'):
                    # a free character in front of \\begin at the start position ends in an error message that formats the
                    # symbolic token (realised value by value, > 500 paths): start at position 1 with the BODY hole free;
                    # the leading character is covered by the env_*_lead conditions over a small set
                    c.pre = [p for p in c.pre if p not in ('0 <= pos <= 1', 's[10] == chr(120)')] + ['pos == 1', 's[0] == chr(120)']
                if c.name == 'env_other':
                    c.pre = [p for p in c.pre if p != '0 <= pos <= 1'] + ['pos == 0']
        for name in ('E', None):
            sk = 'x' + BS + 'begin{E}x' + BS + 'end{E}x'
            conds.append(Cond('env_%s_lead' % name, PP, ['len(s) == %d' % len(sk)] +
                              ['s[%d] == chr(%d)' % (i, ord(ch)) for i, ch in enumerate(sk) if i != 0] +
                              ['any(s[0] == chr(k) for k in (32, 10, 120, 123, 37))', 'pos == 0'], 'body_env(s, pos, %r)' % name, timeout=T,
                              twin=False, descr='space, newline, x, { or %% in front of the environment, start position 0'))
    for i, (a, sk) in enumerate([('{*{', BS + 'n{a}?*{b}?'), ('{*', BS + 'n{a}?*?'), ('[*{', BS + 'n[a]?*{b}'), ('*[{', BS + 'n?*?[a]{b}'),
                                 ('{[', BS + 'n{a}?[b]?'), ('[{', BS + 'n?[a]?{b}'), ('{{', BS + 'n?a?b')]):
        # quick: each hole free in turn (the other pinned to x); thorough: both holes free
        for tag, sk1 in (hole_variants(sk, 1) if quick else [('all', sk)]):
            conds.append(Cond('spellskel_%d%s' % (i, '' if tag == 'all' else '_' + tag), 's: str', skel_pre(sk1),
                              "body_spellings(s, %r, 'macro')" % a, timeout=T, twin=False, cost=2,
                              smoke=[dict(s=skel_fill(sk, ' ')), dict(s=skel_fill(sk, 'x'))],
                              descr='argument string %r, document %r (? = any character)' % (a, sk1)))
    return conds


META = dict(
    functions=['LatexWalker.get_latex_nodes/get_latex_expression/get_latex_braced_group/get_latex_environment/'
               'get_latex_maybe_optional_arg/get_token (pylatexenc-2 compatibility layer in latexwalker/_walker.py)',
               'macrospec._specclasses (args_parser handling: _legacy_pyltxenc2_CallableSpec_init_from_args_parser), '
               'macrospec._spechelpers.std_macro/std_environment, MacroStandardArgsParser',
               'the pylatexenc-3 parsers they are compared with'],
    bounds=dict(quick='every Unicode string of length <= 2  and every start position, for 4 of the 7 get_latex_nodes variants '
                      '(stop on bracket, on \\end, read_max_nodes=1, none), '
                      'expression, 2 brace types, optional argument, 4 get_token variants; pinned skeletons with one free hole and start '
                      'position 0/1 for all 7 variants and the other entry points; get_latex_environment on skeletons with the body character free (start '
                      'position 1) or the leading character in {space, newline, x, {, %} (start position 0): a free leading character ends '
                      'in an error message that formats the symbolic token and does not finish; 7 argument strings over {*,[,{} through 4 macro (and, for some, 4 environment) spellings on all 2-character '
                      'continuations over {*,[,{,a,space} and 7 longer skeletons',
                thorough='length <= 3 for all 7 get_latex_nodes variants; 5 brace types; argument strings up to length 4 on 3-character continuations'),
    stubs=['logging disabled', 'deprecation warnings silenced', 'step budget'],
    outside=['strict_braces=False', 'tolerant walkers', 'parsing_state arguments other than those listed'],
    assumptions=['documented difference kept out of the comparison: get_latex_expression sets nodeargd=None on call nodes'],
)
