"""C17 A derived parsing state behaves exactly like a freshly built one."""
import copy
from vlib.driver import Cond
from vlib.common import Violation, require, fail
from pylatexenc.latexnodes import (LatexTokenReader, ParsingState, LatexWalkerEndOfStream, LatexWalkerTokenParseError)

ID = 'C17'
TITLE = 'A derived parsing state behaves exactly like a freshly built one'

BS = '\\'
MENU = [
    dict(in_math_mode=True, math_mode_delimiter='$'),                                   # 0
    dict(in_math_mode=True, math_mode_delimiter=BS + '['),                              # 1
    dict(in_math_mode=False, math_mode_delimiter=None),                                 # 2
    dict(latex_group_delimiters=[('{', '}'), ('[', ']')]),                              # 3
    dict(latex_group_delimiters=[('<', '>')]),                                          # 4
    dict(latex_inline_math_delimiters=[('$', '!')]),                                    # 5 changed closer
    dict(latex_display_math_delimiters=[('$$', '!!'), (BS + '[', BS + '>')]),           # 6 changed closers
    dict(enable_macros=False, enable_environments=False),                               # 7
    dict(enable_comments=False, enable_groups=False),                                   # 8
    dict(enable_math=False, enable_specials=False, enable_double_newline_paragraphs=False),  # 9
    dict(macro_escape_char='!', comment_start='#'),                                     # 10
    dict(forbidden_characters='a$'),                                                    # 11
    dict(math_mode_delimiter='$$'),                                                     # 12 delimiter only
    dict(latex_inline_math_delimiters=[('$', '$'), ('!', '!')]),                        # 13 added delimiter
    dict(in_math_mode=True),                                                            # 14 math without delimiter
    dict(math_mode_delimiter=None),                                                     # 15 explicit None
    dict(latex_group_delimiters=None, latex_inline_math_delimiters=None),               # 16 reset lists to their defaults
]
STARTS = [dict(), dict(in_math_mode=True, math_mode_delimiter='$'),
          dict(latex_group_delimiters=[('{', '}'), ('[', ']')], in_math_mode=True, math_mode_delimiter=BS + '('),
          dict(forbidden_characters='a$', latex_inline_math_delimiters=[('$', '!')], latex_group_delimiters=[('<', '>')])]


def tokens(s, ps, tolerant):
    r = LatexTokenReader(s, tolerant_parsing=tolerant)
    out = []
    n = 0
    while True:
        try:
            t = r.next_token(ps)
        except LatexWalkerEndOfStream as e:
            out.append(('EOS', e.final_space))
            break
        except LatexWalkerTokenParseError as e:
            out.append(('ERR', e.pos))
            break
        out.append((t.tok, t.arg, t.pos, t.pos_end, t.pre_space, getattr(t, 'post_space', '')))
        n += 1
        if n > len(s) + 2:
            fail('tokenizer does not terminate under the derived or fresh state')
    return out


def body_chain(s, start, steps, tolerant):
    ps = ParsingState(s=s, **copy.deepcopy(STARTS[start]))
    for k in steps:
        before = copy.deepcopy({f: v for f, v in ps.get_fields().items() if f != 'latex_context'})
        try:
            child = ps.sub_context(**copy.deepcopy(MENU[k]))
        except Violation:
            raise
        except Exception as e:
            fail('sub_context raised %s' % type(e).__name__)
        after = {f: v for f, v in ps.get_fields().items() if f != 'latex_context'}
        require(before == after, 'sub_context() altered the state it was called on')
        # the fields of the derived state are those of a state constructed directly from the parent's fields updated with
        # the keyword arguments (a None argument means None / the default list, not "unchanged")
        want = dict(ps.get_fields())
        want.update(copy.deepcopy(MENU[k]))
        direct = ParsingState(**want).get_fields()
        got = child.get_fields()
        require(all(got[f] == direct[f] for f in got if f not in ('latex_context', 's')),
                'sub_context() yields field values different from a state constructed directly with the updated fields')
        ps = child
    fields = ps.get_fields()
    fresh = ParsingState(**copy.deepcopy(fields))
    require(fresh.get_fields() == fields, 'a state rebuilt from get_fields() reports different fields')
    a = tokens(s, ps, tolerant)
    b = tokens(s, fresh, tolerant)
    require(a == b, 'derived state tokenizes differently from a freshly built state with the same fields')
    return len(a) >= 2


def conditions(tier):
    quick = tier == 'quick'
    T = 600 if quick else 3000
    n = 2 if quick else 3
    chains = []
    for st in (0, 1):
        for k in range(len(MENU)):
            chains.append((st, (k,)))
    A = (0, 1, 5, 6, 3, 14)
    B = (0, 5, 6, 12, 2, 4, 13)
    for a in A:
        for b in B:
            if a != b:
                chains.append((0, (a, b)))
    for b in (5, 6, 13, 12, 2):
        chains.append((2, (b,)))
        chains.append((1, (b, 0)))
    for b in (0, 3, 7, 15, 16):
        chains.append((3, (b,)))
    chains += [(0, (11, 0)), (0, (11, 3)), (1, (15, 12)), (0, (4, 16))]
    if not quick:
        for a in range(len(MENU)):
            for b in range(len(MENU)):
                if (0, (a, b)) not in chains and a != b:
                    chains.append((0, (a, b)))
        for a in A:
            for b in B:
                for c in (0, 2, 5, 12):
                    chains.append((1, (a, b, c)))
    conds = []
    SM = [dict(s=x) for x in ('', '$a', 'a!', '$$', BS + '[', '!!', '<>', '[a', '#x', BS + ']')]
    for i, (st, steps) in enumerate(chains):
        nm = 'chain_s%d_%s' % (st, '_'.join(str(k) for k in steps))
        tol = (i % 2 == 0)
        nn = n
        if quick and not any(k in (0, 1, 5, 6, 12, 13, 15, 16) for k in steps):
            nn = 1      # chains that do not touch math mode or delimiter lists: length <= 1 in the quick tier
        conds.append(Cond(nm, 's: str', ['len(s) <= %d' % nn], 'body_chain(s, %d, %r, %r)' % (st, tuple(steps), tol),
                          timeout=T, smoke=SM, twin=False,
                          descr='start %r, sub_context steps %r' % (STARTS[st], [MENU[k] for k in steps])))
    return conds


META = dict(
    functions=['ParsingState.sub_context/get_fields/__init__/finalize_state/_finalize_state_latex_group_delimiters_info/'
               '_finalize_state_latex_math_delim_info/_finalize_state_inmathmode_info', 'LatexTokenReader (token stream under both states)'],
    bounds=dict(quick='about 100 chains of 1-2 sub_context() calls from 4 start states over a menu of 17 field changes (math mode and delimiter, '
                      'group / inline / display delimiter lists with changed closers, enable_* flags, escape and comment characters, '
                      'forbidden characters); compared on the token stream of every Unicode string of length <= 2 (<= 1 for chains that touch neither math '
                      'mode nor delimiter lists), strict and tolerant alternating',
                thorough='all ordered pairs of menu entries plus 168 chains of 3 calls; strings of length <= 3'),
    stubs=['logging disabled'],
    outside=['chains longer than 3', 'field values outside the menu', 'comparison of full parses (token streams only)'],
)
