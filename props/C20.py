"""C20 Positions map to the right line and column, also in error reports."""
from vlib.driver import Cond
from vlib.common import Violation, require
from pylatexenc.latexwalker import LatexWalker, LatexWalkerParseError
from pylatexenc.latexnodes.parsers import LatexGeneralNodesParser

ID = 'C20'
TITLE = 'Positions map to the right line and column, also in error reports'


def ref_line_col(s, pos, a, b, c):
    """Oracle written from the statement: count of newlines before pos; distance to the last one."""
    k = 0
    start = 0
    i = 0
    while i < pos:
        if s[i] == '\n':
            k += 1
            start = i + 1
        i += 1
    col = pos - start + (b if k == 0 else c)
    return a + k, col


def body_lc(s, pos, a, b, c, as_dict=False):
    w = LatexWalker(s, line_number_offset=a, first_line_column_offset=b, column_offset=c)
    got = w.pos_to_lineno_colno(pos, as_dict=as_dict)
    if as_dict:
        require(set(got.keys()) == {'lineno', 'colno'}, 'as_dict keys')
        got = (got['lineno'], got['colno'])
    exp = ref_line_col(s, pos, a, b, c)
    require(got[0] == exp[0], 'line number differs from 1+offset+newlines before pos')
    require(got[1] == exp[1], 'column differs from distance to line start plus offset')
    # second call on the same walker (cached calculator) for the end position
    got2 = w.pos_to_lineno_colno(len(s))
    exp2 = ref_line_col(s, len(s), a, b, c)
    require(tuple(got2) == exp2, 'cached calculator disagrees at end of input')
    return '\n' in s and pos > 0


def body_lc_default(s, pos):
    w = LatexWalker(s)
    got = w.pos_to_lineno_colno(pos)
    exp = ref_line_col(s, pos, 1, 0, 0)
    require(tuple(got) == exp, 'default offsets: (lineno, colno) wrong')
    return '\n' in s[:pos]


def body_err(s, a, b, c):
    """Strict parse errors carry the line/column of their own position."""
    w = LatexWalker(s, tolerant_parsing=False, line_number_offset=a, first_line_column_offset=b,
                    column_offset=c)
    try:
        w.parse_content(LatexGeneralNodesParser())
    except LatexWalkerParseError as e:
        pos = e.pos
        require(isinstance(pos, int) and 0 <= pos <= len(s), 'error position outside input')
        exp = ref_line_col(s, pos, a, b, c)
        require((e.lineno, e.colno) == exp, 'error lineno/colno do not match error pos')
        return True
    return False


def conditions(tier):
    n = 5 if tier == 'quick' else 7
    conds = []
    for L in range(0, n + 1):
        conds.append(Cond(
            'lc_len%d' % L, 's: str, pos: int, a: int, b: int, c: int',
            ['len(s) == %d' % L, '0 <= pos <= len(s)'],
            'body_lc(s, pos, a, b, c)', timeout=100 if tier == 'quick' else 900,
            twin=(L >= 2), cost=3 ** L,
            smoke=[dict(s='a\nb\r\n c'[:L], pos=min(L, 3), a=1, b=0, c=0)],
            descr='all Unicode strings of length %d, every position, symbolic offsets' % L))
    conds.append(Cond('lc_asdict', 's: str, pos: int, a: int, b: int, c: int',
                      ['len(s) <= 3', '0 <= pos <= len(s)'], 'body_lc(s, pos, a, b, c, True)', timeout=60))
    conds.append(Cond('lc_default', 's: str, pos: int', ['len(s) == %d' % (n - 2), '0 <= pos <= len(s)'],
                      'body_lc_default(s, pos)', timeout=100 if tier == 'quick' else 600))
    # error half: errors with positions after newlines; pinned skeletons with free holes
    for name, skel in [('err_close', '?}?'), ('err_nl_close', '?\n?}'), ('err_open', '{??'), ('err_math', '?\n$?'),
                       ('err_2nl', '\n?\n}') ] + ([('err_3', '???'), ('err_end', '?\n\\end{a}?'),
                                                    ('err_nl3', '?\n?\n?}?')] if tier != 'quick' else []):
        pre = ['len(s) == %d' % len(skel)]
        for i, ch in enumerate(skel):
            if ch != '?':
                pre.append('s[%d] == chr(%d)' % (i, ord(ch)))
        conds.append(Cond(name, 's: str', pre, 'body_err(s, 1, 0, 0)',
                          timeout=120 if tier == 'quick' else 600, cost=5,
                          smoke=[dict(s=skel.replace('?', 'x'))],
                          descr='strict parse errors on skeleton %r (? = any character)' % skel))
    # (symbolic offsets are realised by the error-message formatting, so the error half uses concrete ones)
    conds.append(Cond('err_offsets', 's: str', ['len(s) == 3', 's[2] == chr(125)'],
                      'body_err(s, 5, 7, 11)', timeout=120, cost=5,
                      descr='strict parse errors on skeleton ??} with offsets (5,7,11)'))
    return conds


META = dict(
    functions=['pylatexenc._util.LineNumbersCalculator.__init__/pos_to_lineno_colno',
               'pylatexenc.latexwalker.LatexWalker.pos_to_lineno_colno',
               'pylatexenc.latexwalker.LatexWalker._ParsingContext.__exit__ (error lineno/colno)',
               'LatexWalker.parse_content + default context parsers (error half)'],
    bounds=dict(quick='every Unicode string of length <= 5 x every position 0..len x unbounded symbolic int offsets; '
                      'error half: 5 pinned skeletons of <= 4 characters with free holes',
                thorough='length <= 7; error half: 8 skeletons'),
    stubs=['logging disabled'],
    outside=['strings longer than the bound', 'errors raised by documents other than the listed skeletons (see C05)'],
    assumptions=['oracle: lineno = line_number_offset + number of newline characters before pos; colno = pos - index '
                 'after the last such newline + (first_line_column_offset on the first line, column_offset otherwise)'],
)
