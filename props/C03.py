"""C03 latex2text renders the core sublanguage by its documented rules, compositionally."""
from vlib.driver import Cond
from vlib.common import Violation, BudgetExceeded, require, fail
from vlib.oracles import StepBudget
from vlib.ctx import clear_parser_cache
from pylatexenc.latex2text import LatexNodes2Text, get_default_latex_context_db
from pylatexenc.latexwalker import LatexWalkerParseError

ID = 'C03'
TITLE = 'latex2text renders the core sublanguage by its documented rules, compositionally'

BS = '\\'
# whitespace policies as documented for strict_latex_spaces (True = strict LaTeX behaviour):
#   mac: space after a bare macro is swallowed; con: whitespace between constructs is kept as written (non-strict drops
#   whitespace-only text between constructs); cmt: whitespace after a comment is swallowed; eq: policy inside equations
POL = {
    'macros': dict(mac=True, con=True, cmt=False, eq='based-on-source'),          # the default
    'based-on-source': dict(mac=False, con=False, cmt=False, eq=None),
    'except-in-equations': dict(mac=True, con=True, cmt=True, eq='based-on-source'),
    'strict': dict(mac=True, con=True, cmt=True, eq='strict'),
}
POL_ARG = {'macros': 'macros', 'based-on-source': 'based-on-source', 'except-in-equations': 'except-in-equations', 'strict': True}

_DB = get_default_latex_context_db()


def sym(name):
    """replacement text of a symbol macro / specials, read from the text database (data, not logic)"""
    sp = _DB.get_macro_spec(name)
    return sp.simplify_repl


def spc(chars):
    return _DB.get_specials_spec(chars).simplify_repl


def eqpol(P):
    if P['eq'] is None:
        return P
    return POL[P['eq']]


def grp(content, kbg):
    return '{' + content + '}' if (kbg and len(content) >= 2) else content


def block(content):
    return '\n    ' + content.strip().replace('\n', '\n    ') + '\n'


# (name, skeleton, expected(h, P, kbg)) ; § content hole (ASCII letter/digit), ¶ whitespace hole (space-like, no newline),
# ↵ whitespace hole that may be a newline
FAMILIES = [
    ('plain', '§¶§', lambda h, P, k: h[0] + h[1] + h[2]),
    ('plain_nl', '§↵§', lambda h, P, k: h[0] + h[1] + h[2]),
    ('group1', '{§}§', lambda h, P, k: h[0] + h[1]),
    ('group2', '{§§}§', lambda h, P, k: grp(h[0] + h[1], k) + h[2]),
    ('group_nested', '{§{§§}}§', lambda h, P, k: grp(h[0] + grp(h[1] + h[2], k), k) + h[3]),
    ('textbf', BS + 'textbf{§}¶§', lambda h, P, k: h[0] + h[1] + h[2]),
    ('emph_in_textbf', BS + 'textbf{' + BS + 'emph{§}§}§', lambda h, P, k: h[0] + h[1] + h[2]),
    ('textit_group', BS + 'textit{{§§}}§', lambda h, P, k: grp(h[0] + h[1], k) + h[2]),
    ('sym_chars', BS + 'alpha↵§', lambda h, P, k: sym('alpha') + ('' if P['mac'] else h[0]) + h[1]),
    ('sym_sym', BS + 'alpha↵' + BS + 'beta{}§', lambda h, P, k: sym('alpha') + sym('beta') + h[1]),
    ('sym_empty_group', BS + 'alpha{}¶§', lambda h, P, k: sym('alpha') + h[0] + h[1]),
    ('sym_in_group', '{' + BS + 'dag¶§}§', lambda h, P, k: grp(sym('dag') + ('' if P['mac'] else h[0]) + h[1], k) + h[2]),
    ('sym_comment', BS + 'alpha↵%§\n§', lambda h, P, k: sym('alpha') + ('' if P['cmt'] else '\n') + h[2]),
    ('sym_comment_math', '$' + BS + 'alpha¶%§\n§$', lambda h, P, k: sym('alpha') + ('' if eqpol(P)['cmt'] else '\n') + h[2]),
    ('math_display_par', BS + '[§\n\n§' + BS + ']', lambda h, P, k: block(h[0] + '\n\n' + h[1])),
    ('accent_symbol', '$' + BS + 'vec{' + BS + 'ell}§$', lambda h, P, k: sym('ell') + '\u20d7' + h[0]),
    ('accent_bb', '$' + BS + 'bar{' + BS + 'mathbb{R}}$§', lambda h, P, k: '\u211d\u0305' + h[0]),
    ('sym_end', '§' + BS + 'ldots', lambda h, P, k: h[0] + sym('ldots')),
    ('constructs_ws', '{§}¶{§}', lambda h, P, k: h[0] + (h[1] if P['con'] else '') + h[2]),
    ('constructs_ws2', BS + 'textbf{§}¶' + BS + 'emph{§}', lambda h, P, k: h[0] + (h[1] if P['con'] else '') + h[2]),
    ('comment', '§%§\n§', lambda h, P, k: h[0] + ('' if P['cmt'] else '\n') + h[2]),
    ('comment_sp', '§%§\n¶§', lambda h, P, k: h[0] + ('' if P['cmt'] else '\n' + h[2]) + h[3]),
    ('comment_eof', '§%§', lambda h, P, k: h[0]),
    ('par', '§\n\n§', lambda h, P, k: h[0] + '\n\n' + h[1]),
    ('par_sp', '§\n¶\n§', lambda h, P, k: h[0] + '\n\n' + h[2]),
    ('math_inline', '§$§$§', lambda h, P, k: h[0] + h[1] + h[2]),
    ('math_inline_sp', '§ $§¶§$ §', lambda h, P, k: h[0] + ' ' + h[1] + h[2] + h[3] + ' ' + h[4]),
    ('math_sym', '$' + BS + 'alpha¶§$', lambda h, P, k: sym('alpha') + ('' if eqpol(P)['mac'] else h[0]) + h[1]),
    ('math_display', '§' + BS + '[§' + BS + ']§', lambda h, P, k: h[0] + block(h[1]) + h[2]),
    ('math_dd', '§$$§§$$§', lambda h, P, k: h[0] + block(h[1] + h[2]) + h[3]),
    ('math_paren', BS + '(§' + BS + ')§', lambda h, P, k: h[0] + h[1]),
    ('frac', BS + 'frac{§}{§}§', lambda h, P, k: sym('frac') % (h[0], h[1]) + h[2]),
    ('frac_tokens', BS + 'frac §§¶§', lambda h, P, k: sym('frac') % (h[0], h[1]) + h[2] + h[3]),
    ('sqrt', BS + 'sqrt{§}§', lambda h, P, k: sym('sqrt') % {'1': '', '2': h[0]} + h[1]),
    ('sqrt_opt', BS + 'sqrt[§]{§}', lambda h, P, k: sym('sqrt') % {'1': h[0], '2': h[1]}),
    ('tie', '§~§', lambda h, P, k: h[0] + spc('~') + h[1]),
    ('dashes', '§--§---§', lambda h, P, k: h[0] + spc('--') + h[1] + spc('---') + h[2]),
    ('quotes', "``§''§", lambda h, P, k: spc('``') + h[0] + spc("''") + h[1]),
    ('amp', '§&§', lambda h, P, k: h[0] + spc('&') + h[1]),
    ('acute', BS + "'e§", lambda h, P, k: 'é' + h[0]),
    ('uml_group', BS + '"{o}§', lambda h, P, k: 'ö' + h[0]),
    ('hat_space', BS + '^ a§', lambda h, P, k: 'â' + h[0]),
    ('unknown_env', BS + 'begin{foo}§¶§' + BS + 'end{foo}§', lambda h, P, k: h[0] + h[1] + h[2] + h[3]),
    ('mix', BS + 'textbf{§} ' + BS + 'alpha\n§%§\n$§$', lambda h, P, k:
        h[0] + (' ' if P['con'] else '') + sym('alpha') + ('' if P['mac'] else '\n') + h[1] + ('' if P['cmt'] else '\n') + h[3]),
]
FAM = dict((n, (sk, e)) for n, sk, e in FAMILIES)

# composition: two self-contained blocks joined by a paragraph break / a space
BLOCKS = [BS + 'textbf{§}', '{§§}', '$§$', BS + 'alpha{}', '§' + BS + 'ldots{}', BS + 'frac{§}{§}', '§~§', BS + "'e", '§%§\n§']


def warmup():
    LatexNodes2Text().latex_to_text('a \\textbf{b} $c$')


def l2t(s, pol, kbg, math_mode='text'):
    clear_parser_cache()
    try:
        with StepBudget(len(s)):
            return LatexNodes2Text(strict_latex_spaces=POL_ARG[pol], keep_braced_groups=kbg,
                                   math_mode=math_mode).latex_to_text(s, tolerant_parsing=False)
    except BudgetExceeded:
        fail('latex_to_text does not terminate')
    except LatexWalkerParseError:
        fail('core-sublanguage document was rejected by the strict parser')
    except Violation:
        raise
    except Exception as e:
        fail('latex_to_text raised %s' % type(e).__name__)


def holes_of(sk, s):
    return [s[i] for i, ch in enumerate(sk) if ch in '§¶↵']


def body_render(s, fam, pols=None, kbgs=(False, True)):
    sk, exp = FAM[fam]
    h = holes_of(sk, s)
    for pol in (POL if pols is None else pols):
        for kbg in kbgs:
            want = exp(h, POL[pol], kbg)
            got = l2t(s, pol, kbg)
            require(got == want, 'rendered text differs from the documented rules (family %s, policy %s)' % (fam, pol))
    return True


def body_compose(s, la, joiner, pols=None, kbgs=(False, True)):
    """s = A + joiner + B with A, B self-contained blocks: l2t(s) == l2t(A) + joiner + l2t(B)"""
    a = s[:la]
    b = s[la + len(joiner):]
    for pol in (POL if pols is None else pols):
        if joiner == ' ' and not POL[pol]['con']:
            # documented: without strict between-latex-constructs, whitespace-only text between two constructs is dropped
            continue
        for kbg in kbgs:
            whole = l2t(s, pol, kbg)
            parts = l2t(a, pol, kbg) + joiner + l2t(b, pol, kbg)
            require(whole == parts, 'conversion of two blocks joined by %r differs from joining their conversions (policy %s)'
                    % (joiner, pol))
    return True


def sk_pre(sk):
    pre = ['len(s) == %d' % len(sk)]
    for i, ch in enumerate(sk):
        if ch == '§':
            pre.append('(48 <= ord(s[%d]) < 58 or 65 <= ord(s[%d]) < 91 or 97 <= ord(s[%d]) < 123)' % (i, i, i))
        elif ch == '¶':
            pre.append('s[%d].isspace() and s[%d] != chr(10) and s[%d] != chr(13)' % (i, i, i))
        elif ch == '↵':
            pre.append('s[%d].isspace()' % i)
        else:
            pre.append('s[%d] == chr(%d)' % (i, ord(ch)))
    return pre


def pin_content(sk, maxc, which=0):
    """extra preconditions pinning all but `maxc` content holes to the letter x (`which` rotates the choice)"""
    idx = [i for i, ch in enumerate(sk) if ch == '§']
    if len(idx) <= maxc:
        return []
    k = which % len(idx)
    free = set((idx[k:] + idx[:k])[:maxc])
    fr = (BS + 'frac') in sk or (BS + 'sqrt') in sk
    return ['s[%d] == chr(%d)' % (i, 49 if fr else 120) for i in idx if i not in free]


def digits_only(sk):
    """fraction / root rendering formats its (symbolic) content with string formatting, which CrossHair realises value by
    value: in the quick tier the content holes of such documents range over the ten digits only"""
    if (BS + 'frac') not in sk and (BS + 'sqrt') not in sk:
        return []
    return ['ord(s[%d]) < 58' % i for i, ch in enumerate(sk) if ch == '§']


def fill(sk):
    return sk.replace('§', 'x').replace('¶', ' ').replace('↵', ' ')


def conditions(tier):
    quick = tier == 'quick'
    T = 900 if quick else 3600
    conds = []
    names = list(POL)
    for k, (name, sk, exp) in enumerate(FAMILIES):
        if quick:
            # one conversion costs ~1 s under the tracer: the default policy plus one rotating policy per family;
            # keep_braced_groups=True only where a group occurs
            pols = ('macros', names[1 + k % 3])
            kbgs = (False, True) if '{' in sk.replace(BS + 'textbf{', '').replace(BS + 'frac{', '') and 'group' in name else (False,)
            call = 'body_render(s, %r, %r, %r)' % (name, pols, kbgs)
        else:
            call = 'body_render(s, %r)' % name
        extra = []
        if quick:
            # path count grows ~3x per free content hole (3-7 s per path): two free content holes per family in the quick
            # tier (one for the fraction / root families, whose rendering looks at the content), the others pinned to 'x'
            extra = pin_content(sk, 1 if ('frac' in name or 'sqrt' in name or name == 'mix') else 2, k) + digits_only(sk)
        conds.append(Cond('render_' + name, 's: str', sk_pre(sk) + extra, call, timeout=T, cost=len(sk) / 8.0,
                          twin=False, smoke=[dict(s=fill(sk)), dict(s=sk.replace('§', 'Z').replace('¶', '\t').replace('↵', '\n'))],
                          descr='skeleton %r under the whitespace policies x keep_braced_groups' % sk))
    pairs = [(a, b) for i, a in enumerate(BLOCKS) for j, b in enumerate(BLOCKS) if (i + 2 * j) % (9 if quick else 1) == 0]
    for n, (a, b) in enumerate(pairs):
        for jn, joiner in (('par', '\n\n'), ('sp', ' ')):
            sk = a + joiner + b
            nm = 'compose_%s_%d_%d' % (jn, BLOCKS.index(a), BLOCKS.index(b))
            call = 'body_compose(s, %d, %r)' % (len(a), joiner)
            if quick:
                call = 'body_compose(s, %d, %r, %r, (False,))' % (len(a), joiner, ('macros', names[1 + n % 3]))
            conds.append(Cond(nm, 's: str', sk_pre(sk) + ((pin_content(sk, 1, n) + digits_only(sk)) if quick else []), call, timeout=T,
                              cost=len(sk) / 8.0, twin=False, smoke=[dict(s=fill(sk))],
                              descr='blocks %r and %r joined by %r' % (a, b, joiner)))
    return conds


META = dict(
    functions=['LatexNodes2Text.latex_to_text/nodelist_to_text/_is_bare_macro_node/chars_node_to_text/comment_node_to_text/'
               'group_node_to_text/macro_node_to_text/apply_simplify_repl/environment_node_to_text/specials_node_to_text/'
               'math_node_to_text/_PushEquationContext/_fmt_indented_block', '_parse_strict_latex_spaces_dict and the presets',
               'latex2text._defaultspecs: make_accented_char and the symbol/specials tables (replacement strings read at run time)',
               'strict parser with the default context'],
    bounds=dict(quick='41 document families of the core sublanguage (text, groups, formatting macros, symbol macros followed by text / '
                      'macros / empty groups, fractions, roots, accents, specials, comments, paragraph breaks, inline and display math, '
                      'unknown and transparent environments) with content holes = any ASCII letter or digit (at most two of them free per condition, one - a digit - in the fraction / '
                      'root families and one in the composition conditions, the others pinned to x, or to 1 in documents with a fraction or root) and whitespace holes = any whitespace character, each rendered under the default policy and one of the three others (rotating), keep_braced_groups on group families, '
                      'and compared with a reference written from the class documentation; composition law for every ninth pair of 9 '
                      'self-contained blocks joined by a paragraph break and by a space',
                thorough='every family under all 4 policies x keep_braced_groups; all 81 block pairs'),
    stubs=['logging disabled', 'step budget'],
    outside=['fill_text', "math_mode other than 'text' (see C12)", 'list environments and \\item', 'documents outside the families',
             'holes longer than one character'],
    assumptions=['the reference in props/C03.py encodes the documented rules: a bare symbol macro swallows the following whitespace '
                 'under strict between-macro-and-chars; whitespace-only text between constructs is dropped unless strict '
                 'between-latex-constructs; whitespace after a comment is kept unless strict after-comment; equations use the '
                 'in-equations policy; display math is an indented block; braces kept only with keep_braced_groups and >= 2 characters'],
)
