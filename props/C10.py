"""C10 Each node's math/text mode is the one implied by the enclosing structure."""
from vlib.driver import Cond, ord_partition
from vlib.common import Violation, require, fail
from vlib.oracles import parse, is_list, node_children
from vlib.parsefam import get_ctx, skel_pre, skel_fill, BS, hole_variants
from pylatexenc.latexwalker import LatexWalkerParseError
from pylatexenc.latexnodes import nodes as N

ID = 'C10'
TITLE = "Each node's math/text mode is the one implied by the enclosing structure"

ANY = object()
# harness-side knowledge of which arguments / bodies switch mode (from the declarations in vlib/ctx.py and the
# documented behaviour of the default database)
TEXT_ARG_MACROS = {'S': {'t': (0,), 'u': (0,)}, 'D': {'text': (0,), 'textrm': (0,), 'textbf': (0,), 'textit': (0,), 'mbox': (0,),
                                         'textsf': (0,), 'texttt': (0,), 'emph': (0,)}}
MATH_ARG_MACROS = {'S': {'m': (0,), 'w': (0,)}, 'D': {'ensuremath': (0,)}}
MATH_ENVS = {'S': ('M', 'N'), 'D': ('align', 'align*', 'equation', 'equation*', 'gather', 'eqnarray')}
DISPLAY_OPEN = ('$$', BS + '[')


def check_state(n, m, d):
    ps = getattr(n, 'parsing_state', None)
    if ps is None:
        return
    require(bool(ps.in_math_mode) == m, 'node records the wrong math/text mode')
    if not m:
        require(ps.math_mode_delimiter is None, 'text-mode node records a math delimiter')
    elif d is not ANY:
        require(ps.math_mode_delimiter == d, 'math-mode node records the wrong opening delimiter')


def walk(s, n, m, d, ctxk):
    """returns number of math nodes seen"""
    if n is None:
        return 0
    if is_list(n):
        cnt = 0
        if isinstance(n, N.LatexNodeList) and len(n) > 0:
            check_state(n, m, d)
        for x in n:
            cnt += walk(s, x, m, d, ctxk)
        return cnt
    check_state(n, m, d)
    if isinstance(n, N.LatexMathNode):
        d0, d1 = n.delimiters
        require(s[n.pos:n.pos + len(d0)] == d0, 'math node opening delimiter is not the source text at its start')
        require(s[n.pos_end - len(d1):n.pos_end] == d1, 'math node closing delimiter is not the source text at its end')
        require((n.displaytype == 'display') == (d0 in DISPLAY_OPEN), 'display/inline type does not match the delimiter')
        require(n.displaytype in ('inline', 'display'), 'unknown displaytype')
        return 1 + walk(s, n.nodelist, True, d0, ctxk)
    cnt = 0
    if isinstance(n, (N.LatexMacroNode, N.LatexEnvironmentNode, N.LatexSpecialsNode)):
        name = getattr(n, 'macroname', None)
        nodeargd = n.nodeargd
        argl = nodeargd.argnlist if nodeargd is not None and nodeargd.argnlist is not None else []
        for i, a in enumerate(argl):
            am, ad = m, d
            if isinstance(n, N.LatexMacroNode):
                if i in TEXT_ARG_MACROS[ctxk].get(name, ()):
                    am, ad = False, None
                elif i in MATH_ARG_MACROS[ctxk].get(name, ()):
                    am, ad = True, ANY
            cnt += walk(s, a, am, ad, ctxk)
        if isinstance(n, N.LatexEnvironmentNode):
            if n.environmentname in MATH_ENVS[ctxk]:
                cnt += walk(s, n.nodelist, True, ANY, ctxk)
            else:
                cnt += walk(s, n.nodelist, m, d, ctxk)
        return cnt
    if isinstance(n, N.LatexGroupNode):
        return walk(s, n.nodelist, m, d, ctxk)
    return 0


def body_modes(s, ctxname):
    try:
        nl = parse(s, get_ctx(ctxname), tolerant=False)
    except LatexWalkerParseError:
        return False
    except Violation:
        raise
    except Exception:
        return False
    k = walk(s, nl, False, None, 'D' if ctxname == 'D' else 'S')
    return k >= 1


def body_dollars(s, ctxname, expect):
    """expect: list of (displaytype, opening delimiter) of the top-level math nodes, in order."""
    nl = parse(s, get_ctx(ctxname), tolerant=False)
    walk(s, nl, False, None, 'S')
    got = [(x.displaytype, x.delimiters[0]) for x in nl if isinstance(x, N.LatexMathNode)]
    require(got == list(expect), 'run of dollar signs split into the wrong formulas')
    return True


def all_math(n, acc):
    if n is None:
        return
    if is_list(n):
        for x in n:
            all_math(x, acc)
        return
    if isinstance(n, N.LatexMathNode):
        acc.append((n.displaytype, n.delimiters[0]))
    for c in node_children(n):
        all_math(c, acc)


def body_dollars_nested(s, ctxname, expect):
    """a run of dollar signs directly inside another math construct; expect: (displaytype, opening delimiter) of ALL math
    nodes of the tree in document order"""
    try:
        nl = parse(s, get_ctx(ctxname), tolerant=False)
    except Violation:
        raise
    except Exception as e:
        fail('strict parse of a well-formed dollar run inside a math construct raised %s' % type(e).__name__)
    walk(s, nl, False, None, 'S')
    got = []
    all_math(nl, got)
    require(got == list(expect), 'run of dollar signs inside a math construct split into the wrong formulas')
    return True


def digit_pre(sk):
    return ['len(s) == %d' % len(sk)] + [('48 <= ord(s[%d]) < 58' % i) if ch == '?' else ('s[%d] == chr(%d)' % (i, ord(ch)))
                                          for i, ch in enumerate(sk)]


SK_S = [
    ('d_run', '$?$$?$'), ('dd', '$$?$$?'), ('d3', '$?$?$?$'), ('dd_d', '$$?$$$?$'), ('paren', BS + '(?' + BS + ')?'),
    ('brack', BS + '[?' + BS + ']?'), ('t_in_math', '$?' + BS + 't{?$?$?}?$'), ('m_arg', '?' + BS + 'm{?}?'),
    ('m_in_t_in_math', '$' + BS + 't{' + BS + 'm{?}?}?$'), ('env_M', BS + 'begin{M}?' + BS + 't{?}?' + BS + 'end{M}'),
    ('grp_math', '{?$?$}?$?$'), ('M_in_math', '$?' + BS + 't{' + BS + 'begin{M}?' + BS + 'end{M}}$'),
    ('math_grp', '$?{?}?$?'), ('paren_d', BS + '(?$?' + BS + ')'), ('dd_in_t', '$' + BS + 't{$$?$$?}$'),
    ('u_two_args', '$?' + BS + 'u{?}{?}?$'), ('u_text', BS + 'u{?$?$}{?}'), ('w_three', BS + 'w{?}[?]{?}?'),
    ('w_in_text_in_math', '$' + BS + 't{' + BS + 'w{?}{?}?}$'), ('env_N', BS + 'begin{N}?' + BS + 't{?}?' + BS + 'end{N}?'),
    ('env_E_math', '$' + BS + 'begin{E}?' + BS + 'end{E}?$'), ('b_in_math', '$' + BS + 'b[?]{?}$?'),
]
SK_D = [
    ('text', '$?' + BS + 'text{?$?$}?$'), ('ensure', '?' + BS + 'ensuremath{?}?'),
    ('align', BS + 'begin{align}?' + BS + 'text{?}' + BS + 'end{align}'), ('mbox', BS + '[' + BS + 'mbox{?$?$}' + BS + ']'),
]
DOLLARS = [
    ('two_inline', '$?$$?$', [('inline', '$'), ('inline', '$')]),
    ('one_display', '$$?$$', [('display', '$$')]),
    ('display_inline', '$$?$$$?$', [('display', '$$'), ('inline', '$')]),
    ('inline_display', '$?$$$?$$', [('inline', '$'), ('display', '$$')]),
    ('three_inline', '$?$$?$$?$', [('inline', '$'), ('inline', '$'), ('inline', '$')]),
    ('mixed', BS + '(?' + BS + ')$?$' + BS + '[?' + BS + ']', [('inline', BS + '('), ('inline', '$'), ('display', BS + '[')]),
]


II = [('inline', '$'), ('inline', '$')]
NESTED = [
    ('in_paren', BS + '($?$$?$' + BS + ')', [('inline', BS + '(')] + II),
    ('in_brack', BS + '[$?$$?$' + BS + ']', [('display', BS + '[')] + II),
    ('in_env_M', BS + 'begin{M}$?$$?$' + BS + 'end{M}', II),
    ('in_m_arg', BS + 'm{$?$$?$}', II),
    ('in_t_in_math', '$' + BS + 't{$?$$?$}$', [('inline', '$')] + II),
    ('dd_in_m_arg', BS + 'm{?$$?$$}', [('display', '$$')]),
]


def conditions(tier):
    quick = tier == 'quick'
    T = 600 if quick else 3000
    conds = []
    SM = [dict(s=x) for x in ('$a$', '$$a$$', '$a$$b$', BS + '(a' + BS + ')', '$' + BS + 't{x$y$}$', BS + 'm{x}',
                              BS + 'begin{M}x' + BS + 'end{M}')]
    for ctx, n in ([('S', 3), ('D', 2)] if quick else [('S', 4), ('SU', 3), ('D', 3)]):
        conds.append(Cond('modes_%s_le%d' % (ctx, n - 1), 's: str', ['len(s) <= %d' % (n - 1)],
                          'body_modes(s, %r)' % ctx, timeout=T, smoke=SM if ctx != 'D' else [dict(s='$a$')],
                          twin=(n - 1 >= 3)))
        cuts = (36, 37, 92, 93) if n >= 3 else (36, 37)
        for tag, pre in ord_partition('s', 0, cuts):
            for tag2, pre2 in ([('', None)] if n < 3 else [('_lo', 'ord(s[1]) < 92'), ('_hi', 'ord(s[1]) >= 92')]):
                conds.append(Cond('modes_%s_eq%d_%s%s' % (ctx, n, tag, tag2), 's: str',
                                  ['len(s) == %d' % n, pre] + ([pre2] if pre2 else []),
                                  'body_modes(s, %r)' % ctx, timeout=T * (1 if n < 4 else 4), cost=5,
                                  twin=(tag == 'p_eq36' and n >= 3)))
    for ctxn, lst in (('S', SK_S), ('D', SK_D)):
        for nm, sk0 in lst:
            variants = hole_variants(sk0, 1)[:(2 if quick else 99)] if quick else \
                hole_variants(sk0, 2) + ([('full', sk0)] if len(hole_variants(sk0, 2)) > 1 else [])
            for tag, sk in variants:
                conds.append(Cond('skel_%s_%s_%s' % (ctxn, nm, tag), 's: str', skel_pre(sk), 'body_modes(s, %r)' % ctxn,
                                  timeout=T, cost=2, twin=False,
                                  smoke=[dict(s=skel_fill(sk)), dict(s=skel_fill(sk, ' ')), dict(s=skel_fill(sk, '$'))],
                                  descr='skeleton %r (? = any character)' % sk))
    for nm, sk, exp in DOLLARS:
        conds.append(Cond('dollars_' + nm, 's: str', digit_pre(sk), "body_dollars(s, 'S', %r)" % (exp,), timeout=T,
                          smoke=[dict(s=sk.replace('?', '1'))], descr='%r with digits in the holes' % sk))
    for nm, sk, exp in NESTED:
        conds.append(Cond('nested_' + nm, 's: str', digit_pre(sk), "body_dollars_nested(s, 'S', %r)" % (exp,), timeout=T,
                          smoke=[dict(s=sk.replace('?', '1'))], descr='%r with digits in the holes' % sk))
    return conds


META = dict(
    functions=['LatexMathParser / LatexDelimitedGroupParser (math delimiters)', 'LatexTokenReader.impl_maybe_read_math_mode_delimiter',
               'ParsingState.sub_context/_finalize_state_inmathmode_info', 'ParsingStateDeltaEnterMathMode/LeaveMathMode',
               'LatexNodesCollector.make_child_parsing_state', 'LatexArgumentsParser.parse (argument parsing-state deltas)',
               'LatexEnvironmentCallParser / body_parsing_state_delta'],
    bounds=dict(quick='every Unicode string of length <= 3 (CTX_S), <= 2 (default context); 21 skeletons nesting math, text-in-math, '
                      'math-in-text-in-math, groups and environments with the first two holes in turn free; 6 dollar-run '
                      'documents with digit holes',
                thorough='length <= 4 (CTX_S), <= 3 (CTX_SU, default); all hole windows of width 2 and all holes free'),
    stubs=['logging disabled', 'step budget'],
    outside=['nesting deeper than the skeletons', 'macros other than those tabulated in props/C10.py as switching mode'],
    assumptions=['the expected mode is computed by an independent recursion over the returned tree; for arguments declared '
                 'math-mode and for math environments only in_math_mode is checked, not the recorded delimiter'],
)
