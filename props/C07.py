"""C07 latex2text is total: a string for every input and option set."""
from vlib.driver import Cond, ord_partition
from vlib.common import Violation, BudgetExceeded, require, fail
from vlib.oracles import StepBudget
from vlib.ctx import clear_parser_cache
from pylatexenc.latex2text import LatexNodes2Text
from pylatexenc import latex2text as _l2t_mod
from pylatexenc import latexwalker as _lw_mod

ID = 'C07'
TITLE = 'latex2text is total: a string for every input and option set'

BS = '\\'
OPTS = {
    'default': dict(),
    'verb_strict': dict(math_mode='verbatim', strict_latex_spaces=True, keep_comments=True, keep_braced_groups=True),
    'verb_strict_fill': dict(math_mode='verbatim', strict_latex_spaces=True, keep_comments=True, keep_braced_groups=True,
                             fill_text=True),
    'delims_macros': dict(math_mode='with-delimiters', strict_latex_spaces='macros', keep_comments=True),
    'remove_source': dict(math_mode='remove', strict_latex_spaces='based-on-source', keep_braced_groups=True),
    'text_except': dict(math_mode='text', strict_latex_spaces='except-in-equations'),
    'text_except_fill': dict(math_mode='text', strict_latex_spaces='except-in-equations', fill_text=20),
    'verb_fill': dict(math_mode='verbatim', strict_latex_spaces=False, keep_comments=False, fill_text=10,
                      keep_braced_groups=True, keep_braced_groups_minlen=0),
}


def _names():
    wdb = _lw_mod.get_default_latex_context_db()
    tdb = _l2t_mod.get_default_latex_context_db()
    macros = sorted(set(m.macroname for m in wdb.iter_macro_specs()) | set(m.macroname for m in tdb.iter_macro_specs()))
    envs = sorted(set(e.environmentname for e in wdb.iter_environment_specs()) |
                  set(e.environmentname for e in tdb.iter_environment_specs()))
    return macros, envs


MACROS, ENVS = _names()


def _interesting():
    """names whose text replacement is a callable or a %-format, or whose walker signature takes arguments"""
    wdb = _lw_mod.get_default_latex_context_db()
    tdb = _l2t_mod.get_default_latex_context_db()
    out = []
    for i, nm in enumerate(MACROS):
        w = wdb.get_macro_spec(nm)
        t = tdb.get_macro_spec(nm)
        wargs = bool(w is not None and getattr(w, 'macroname', '') == nm and getattr(w, 'arguments_spec_list', None))
        rep = getattr(t, 'simplify_repl', None) if (t is not None and getattr(t, 'macroname', '') == nm) else None
        if wargs or callable(rep) or (isinstance(rep, str) and '%' in rep):
            out.append(i)
    return out


INTERESTING = _interesting()


def warmup():
    for o in OPTS.values():
        LatexNodes2Text(**o).latex_to_text('a \\textbf{b} $c$ %d\n\n \\begin{itemize}\\item x\\end{itemize}')


def l2t(s, optname):
    clear_parser_cache()
    try:
        with StepBudget(len(s)):
            r = LatexNodes2Text(**OPTS[optname]).latex_to_text(s)
    except BudgetExceeded:
        fail('latex_to_text did not finish within the step budget (non-termination)')
    except Violation:
        raise
    except Exception as e:
        fail('latex_to_text raised %s' % type(e).__name__)
    require(isinstance(r, str), 'latex_to_text did not return a string')
    return r


def body_total(s, optname):
    l2t(s, optname)
    return len(s) >= 1


MACRO_TAILS = ['', '{}', '{}{}{}{}', '[]{}', '*{}{}', ' x', '{x}[y]{z}', '{', '[']


QUICK_TAILS = ['', '{}{}{}{}']


def body_macro(k, lo, hi, optname, idx=None, tails=None):
    """every well-formed (and truncated) use of the k-th macro name, lo <= k < hi, incl. as argument of other macros;
    idx: optional list mapping the selector to positions in MACROS (the 'interesting' subset)"""
    done = 0
    for i in range(lo, hi):
        if k == i:
            nm = MACROS[i if idx is None else INTERESTING[i]]
            for t in (MACRO_TAILS if tails is None else QUICK_TAILS):
                l2t(BS + nm + t, optname)
            l2t(BS + 'hat' + BS + nm, optname)
            if tails is None:
                l2t(BS + 'textbf' + BS + nm + ' a', optname)
                l2t(BS + 'frac' + BS + nm + BS + nm, optname)
                l2t('$' + BS + nm + '{a}$ b', optname)
                l2t('{' + BS + nm + '}', optname)
            done = 1
    return done == 1


def body_env(k, lo, hi, optname, short=False):
    done = 0
    for i in range(lo, hi):
        if k == i:
            nm = ENVS[i]
            b, e = BS + 'begin{' + nm + '}', BS + 'end{' + nm + '}'
            bodies = ['', 'x', '[]{}x', '{}{}', '[a]{b}{c} d & e ' + BS + BS + ' f', BS + 'item x', '\n\n']
            for body in (bodies[:3] if short else bodies):
                l2t(b + body + e, optname)
            l2t(b, optname)
            l2t('$' + b + 'x' + e + '$', optname)
            if not short:
                l2t(b + '[', optname)
                l2t(BS + 'textbf' + b + e, optname)
            done = 1
    return done == 1


def conditions(tier):
    quick = tier == 'quick'
    T = 900 if quick else 7200
    conds = []
    SM = [dict(s=x) for x in ('', 'a', BS, 'ab' + BS, BS + 'item', BS + 'frac', '$', '{', '}', BS + 'begin{a}', '%',
                              BS + 'input{x}', BS + 'href', BS + 'verb', 'a}b', BS + 'textbf$')]
    # fill_text re-wraps with re/textwrap, which CrossHair models unfaithfully on symbolic strings: option sets with
    # fill_text are used only where the document is concrete on every path (name sweep) and in concrete-only conditions
    FILL = ('verb_strict_fill', 'text_except_fill', 'verb_fill')
    opts = [o for o in OPTS if o not in FILL] if not quick else ['default', 'verb_strict', 'remove_source']
    for o in FILL:
        conds.append(Cond('concrete_fill_' + o, 's: str', [], 'body_total(s, %r)' % o, concrete_only=True, twin=False,
                          smoke=SM + [dict(s=x) for x in ('a b c d e f g h i j k l m n o p', 'a\n\n b $c$ \\[d\\] %e\n f',
                                                          BS + 'begin{itemize}' + BS + 'item a b c d e f g' + BS + 'end{itemize}')]))
    n = 2 if quick else 3
    for o in opts:
        conds.append(Cond('total_%s_le%d' % (o, n - 1), 's: str', ['len(s) <= %d' % (n - 1)], 'body_total(s, %r)' % o,
                          timeout=T, smoke=SM))
        for tag, pre in ord_partition('s', 0, (36, 37, 92, 93) if n == 2 else (33, 36, 37, 92, 93, 123, 126)):
            conds.append(Cond('total_%s_eq%d_%s' % (o, n, tag), 's: str', ['len(s) == %d' % n, pre],
                              'body_total(s, %r)' % o, timeout=T * (1 if n == 2 else 4), cost=4, twin=False))
    # skeletons with free holes (default option set + the strict one)
    # (holes are not placed directly after a control word: a letter there extends the macro name, and looking a symbolic
    # name up in the ~1100-entry default database costs hundreds of paths)
    skels = [('frac', BS + 'frac{?}?'), ('item', BS + 'item[?]?'), ('href', BS + 'href{?}?'), ('verb', BS + 'verb|?'),
             ('env', BS + 'begin{itemize}?' + BS + 'end{itemize}'), ('mat', BS + 'begin{pmatrix}?&?' + BS + 'end{pmatrix}'),
             ('math', '$?$$?'), ('acc', BS + "'{?}"), ('nl', 'a' + BS + BS + '?[?'), ('cmt', 'a%?\n?'), ('input', BS + 'input{?}'),
             ('sqrt', BS + 'sqrt[?]{?'), ('title', BS + 'title{?' + BS + 'maketitle')]
    for nm, sk in skels:
        if quick:
            sk = sk.replace('?', '\x00', 1).replace('?', 'x').replace('\x00', '?') if sk.count('?') > 1 else sk
        for o in (['default'] if quick else ['default', 'verb_strict', 'remove_source']):
            pre = ['len(s) == %d' % len(sk)] + ['s[%d] == chr(%d)' % (i, ord(ch)) for i, ch in enumerate(sk) if ch != '?']
            heavy = quick and nm in ('frac', 'mat', 'acc', 'sqrt')
            for tag, ppre in ([x for x in ord_partition('s', sk.index('?'), (48, 92, 93, 128)) if x[0] != 'p_ge128'] if heavy else [('', None)]):
                # the four families whose rendering inspects the content: the free character is split by code point
                # so that each part finishes within the quick budget; the non-ASCII part (>= U+0080) does not finish in 900 s
                # and is left to the thorough tier (non-ASCII characters are covered by the free strings of length 2)
                conds.append(Cond('skel_%s_%s%s' % (nm, o, ('_' + tag) if tag else ''), 's: str', pre + ([ppre] if ppre else []),
                                  'body_total(s, %r)' % o, timeout=T, cost=3, twin=False,
                                  smoke=[dict(s=sk.replace('?', c)) for c in ('x', '{', '}', '$', BS)] if not tag else []))
    # name sweep: every macro / environment name of both default databases (selector = symbolic integer)
    if quick:
        step = 16
        for lo in range(0, len(INTERESTING), step):
            hi = min(len(INTERESTING), lo + step)
            conds.append(Cond('imacros_%03d' % lo, 'k: int', ['%d <= k < %d' % (lo, hi)],
                              "body_macro(k, %d, %d, 'default', True, True)" % (lo, hi), timeout=T, cost=3, twin=False,
                              smoke=[dict(k=lo), dict(k=hi - 1)],
                              descr='macro names with arguments or computed replacements: %s .. %s' % (
                                  MACROS[INTERESTING[lo]], MACROS[INTERESTING[hi - 1]])))
    else:
        step = 24
        for lo in range(0, len(MACROS), step):
            hi = min(len(MACROS), lo + step)
            for o in opts:
                conds.append(Cond('macros_%04d_%s' % (lo, o), 'k: int', ['%d <= k < %d' % (lo, hi)],
                                  'body_macro(k, %d, %d, %r)' % (lo, hi, o), timeout=T, cost=3, twin=False,
                                  smoke=[dict(k=lo), dict(k=hi - 1)],
                                  descr='macro names %s .. %s' % (MACROS[lo], MACROS[hi - 1])))
    for lo in range(0, len(ENVS), 8):
        hi = min(len(ENVS), lo + 8)
        for o in (['verb_strict_fill'] if quick else list(opts) + ['verb_strict_fill']):
            conds.append(Cond('envs_%03d_%s' % (lo, o), 'k: int', ['%d <= k < %d' % (lo, hi)],
                              'body_env(k, %d, %d, %r, %r)' % (lo, hi, o, quick), timeout=T, cost=3, twin=False,
                              smoke=[dict(k=lo), dict(k=hi - 1)],
                              descr='environment names %s .. %s' % (ENVS[lo], ENVS[hi - 1])))
    return conds


META = dict(
    functions=['LatexNodes2Text.__init__/latex_to_text/nodelist_to_text/node_to_text/chars_node_to_text/comment_node_to_text/'
               'group_node_to_text/macro_node_to_text/environment_node_to_text/specials_node_to_text/math_node_to_text/'
               'apply_simplify_repl/_groupnodecontents_to_text/node_arg_to_text/do_fill_text',
               'latex2text._defaultspecs (all replacement callables), latexwalker._defaultspecs (argument signatures)',
               'LatexWalker tolerant parsing underneath (see C06)'],
    bounds=dict(quick='every Unicode string of length <= 2 under 3 option sets; 13 skeletons with one free hole (default options; for the fraction, matrix, accent and root skeletons the hole ranges over U+0000..U+007F only); '
                      'the %d macro names (of %d) whose walker signature takes arguments or whose text replacement is computed, in 3 '
                      'concrete uses each, and every environment name (%d) in 5 uses (empty and missing arguments, end of input, as '
                      'argument of another macro, inside math), the name selected by a symbolic integer' % (
                          len(INTERESTING), len(MACROS), len(ENVS)),
                thorough='length <= 3 under 6 option sets; name sweep under all 6 option sets'),
    stubs=['logging disabled', 'step budget on LatexTokenReader.peek_token stands for "bounded time"',
           'no input directory configured (\\input reads nothing)'],
    outside=['fill_text on symbolic input (only on the concrete name-sweep documents and a few concrete strings)', 'two unknown names in one input', 'inputs longer than the bound other than the listed uses', 'option values outside OPTS'],
)
