"""C06 Tolerant mode: total, equals strict on valid input, keeps pre-error content."""
from vlib.driver import Cond, ord_partition
from vlib.common import Violation, require, fail
from vlib.oracles import parse, dump, check_span_tree
from vlib.parsefam import get_ctx, skel_pre, skel_fill, SKELETONS_S, SKELETONS_D, BS, hole_variants
from pylatexenc.latexwalker import LatexWalkerParseError
from pylatexenc.latexnodes import nodes as N
from props.C05 import FAULT_BASES

ID = 'C06'
TITLE = 'Tolerant mode: total, equals strict on valid input, keeps pre-error content'


def tolerant_parse(s, ctxname):
    try:
        nl = parse(s, get_ctx(ctxname), tolerant=True)
    except Violation:
        raise
    except Exception as e:
        fail('tolerant parse raised %s' % type(e).__name__)
    require(nl is not None, 'tolerant parse returned no node list')
    return nl


def strict_parse_or_none(s, ctxname):
    try:
        return parse(s, get_ctx(ctxname), tolerant=False)
    except LatexWalkerParseError:
        return None
    except Violation:
        raise
    except Exception:
        return None     # wrong exception types are C05's subject


def body_tol(s, ctxname):
    """total; identical to strict when strict succeeds."""
    nt = tolerant_parse(s, ctxname)
    ns = strict_parse_or_none(s, ctxname)
    if ns is not None:
        require(dump(nt) == dump(ns), 'tolerant tree differs from strict tree on strictly valid input')
        return len(ns) >= 1
    return False


def body_tol_entry(s, ctxname):
    """the same totality through the other public parsing entry point, LatexWalker.get_latex_nodes()."""
    import warnings
    from pylatexenc.latexwalker import LatexWalker
    from vlib.oracles import StepBudget
    from vlib.common import BudgetExceeded
    ctx = get_ctx(ctxname)
    kw = {} if ctx is None else dict(latex_context=ctx)
    try:
        with warnings.catch_warnings():
            warnings.simplefilter('ignore')
            with StepBudget(len(s)):
                r = LatexWalker(s, tolerant_parsing=True, **kw).get_latex_nodes()
    except BudgetExceeded:
        fail('get_latex_nodes did not finish within the step budget')
    except Exception as e:
        fail('tolerant get_latex_nodes raised %s' % type(e).__name__)
    require(isinstance(r, tuple) and len(r) == 3, 'get_latex_nodes did not return (nodes, pos, len)')
    require(r[0] is not None and isinstance(r[1], int) and isinstance(r[2], int), 'get_latex_nodes returned no nodes/position')
    return len(r[0]) >= 1


def body_prefix(s, ctxname, la, ls):
    """s = A + stray closing token + garbage, A = s[:la] strictly parseable: A's top-level nodes survive."""
    a = s[:la]
    na = strict_parse_or_none(a, ctxname)
    if na is None:
        return False
    # the stray token must really be the first syntax error (a free character before it may turn it into
    # something else: a comment start swallows it, an escape character makes it a control symbol)
    try:
        parse(s[:la + ls], get_ctx(ctxname), tolerant=False)
        return False
    except LatexWalkerParseError as e:
        if e.pos != la:
            return False
    except Violation:
        raise
    except Exception:
        return False
    nt = tolerant_parse(s, ctxname)
    da = dump(na)[3:]
    dt = dump(nt)[3:]
    require(len(dt) >= len(da), 'tolerant parse lost top-level nodes that precede the first error')
    k = len(da)
    for i in range(k - 1):
        require(dt[i] == da[i], 'a node preceding the first error differs from its strict parse')
    if k:
        last_a, last_t = da[k - 1], dt[k - 1]
        if last_a[0] == 'Chars':
            require(last_t[0] == 'Chars' and last_t[1] == last_a[1] and last_t[3].startswith(last_a[3]),
                    'text immediately preceding the first error was lost')
        else:
            require(last_t == last_a, 'the node immediately preceding the first error differs from its strict parse')
    return k >= 1


STRAYS = [('cbrace', '}'), ('endE', BS + 'end{E}'), ('cparen', BS + ')'), ('cbrack', BS + ']')]


def prefix_pre(base, stray, ng, gap):
    """A (digit holes) [+ one free character if gap] + stray + ng free garbage characters."""
    a = base.replace('|', '') + ('!' if gap else '')
    sk = a + stray + '!' * ng
    pre = ['len(s) == %d' % len(sk)]
    for i, ch in enumerate(sk):
        if ch == '?':
            pre.append('48 <= ord(s[%d]) < 58' % i)
        elif ch != '!':
            pre.append('s[%d] == chr(%d)' % (i, ord(ch)))
    return pre, len(a), sk


def conditions(tier):
    quick = tier == 'quick'
    T = 600 if quick else 3000
    conds = []
    for ctx, n in ([('S', 3), ('SU', 2), ('D', 2)] if quick else [('S', 4), ('SU', 4), ('D', 3)]):
        conds.append(Cond('tol_%s_le%d' % (ctx, n - 1), 's: str', ['len(s) <= %d' % (n - 1)],
                          'body_tol(s, %r)' % ctx, timeout=T,
                          smoke=[dict(s=x) for x in ('', '}', '{', BS, 'ab' + BS, '$$', BS + 'a', BS + '(', 'abc}def',
                                                     BS + 'a$', BS + 'begin{E}x', 'a' + BS + 'end{E}', BS + 'c*')]))
        cuts = (33, 36, 37, 92, 93, 123, 126) if n >= 3 else (36, 92, 93)
        for tag, pre in ord_partition('s', 0, cuts):
            # length 3: the second character is split once more (disjoint, covering) to balance the 16 processes
            for tag2, pre2 in ([('', None)] if n < 3 else [('_lo', 'ord(s[1]) < 92'), ('_hi', 'ord(s[1]) >= 92')]):
                conds.append(Cond('tol_%s_eq%d_%s%s' % (ctx, n, tag, tag2), 's: str',
                                  ['len(s) == %d' % n, pre] + ([pre2] if pre2 else []),
                                  'body_tol(s, %r)' % ctx, timeout=T * (1 if n < 4 else 4), cost=5,
                                  twin=(tag not in ('p_eq37',) and (tag, tag2) != ('p_eq92', '_lo'))))
    for ctx, n in ([('S', 2), ('D', 2)] if quick else [('S', 3), ('SU', 3), ('D', 3)]):
        conds.append(Cond('entry_%s_le%d' % (ctx, n), 's: str', ['len(s) <= %d' % n], 'body_tol_entry(s, %r)' % ctx,
                          timeout=T, smoke=[dict(s=x) for x in ('', '}', 'a}', BS + ')', '{', 'ab' + BS, '$')]))
    sk_s = SKELETONS_S if not quick else [x for x in SKELETONS_S if x[0] in (
        'a_tok', 'b_sp', 'c_end', 'e_part', 'q_absent', 'v_brace', 'nl_opt', 'env_F2', 'env_V', 'math_dd',
        'nest_optgrp', 't_math')]
    for ctxn, lst in (('S', sk_s), ('D', SKELETONS_D if not quick else SKELETONS_D[:3])):
        for nm, sk0 in lst:
            if quick:
                variants = hole_variants(sk0, 1)
            else:
                variants = hole_variants(sk0, 2) + ([('full', sk0)] if len(hole_variants(sk0, 2)) > 1 else [])
            for tag, sk in variants:
                conds.append(Cond('skel_%s_%s_%s' % (ctxn, nm, tag), 's: str', skel_pre(sk), 'body_tol(s, %r)' % ctxn,
                                  timeout=T, cost=3, twin=not quick,
                                  smoke=[dict(s=skel_fill(sk)), dict(s=skel_fill(sk, '}')), dict(s=skel_fill(sk, '$')),
                                         dict(s=skel_fill(sk, BS))],
                                  descr='skeleton %r (? = any character)' % sk))
    for bi, (nm, base) in enumerate(FAULT_BASES):
        for si, (snm, stray) in enumerate(STRAYS):
            for gap in (True, False):
                if quick and (bi + si) % 5 != (0 if gap else 2):
                    continue
                pre, la, sk = prefix_pre(base, stray, 1 if quick else 2, gap)
                conds.append(Cond('prefix_%s_%s_%s' % (nm, snm, 'gap' if gap else 'adj'), 's: str', pre,
                                  "body_prefix(s, 'S', %d, %d)" % (la, len(stray)), timeout=T,
                                  smoke=[dict(s=sk.replace('?', '7').replace('!', c)) for c in 'x} \n'],
                                  descr='well-formed %r%s + stray %r + free garbage' % (
                                      base.replace('|', ''), ' + one free character' if gap else '', stray)))
    return conds


META = dict(
    functions=['LatexWalker.parse_content / _ParsingContext / check_tolerant_parsing_ignore_error',
               'LatexTokenReader.peek_token recovery tokens', 'LatexGeneralNodesParser.parse (recovery_nodes)',
               'LatexNodesCollector, LatexExpressionParser, LatexDelimitedGroupParser, LatexMathParser, call parsers '
               '(tolerant branches)'],
    bounds=dict(quick='every Unicode string of length <= 3 (CTX_S), <= 2 (CTX_SU, default context); 15 skeletons, each hole '
                      'in turn free (any character) with the others pinned; 19 base documents [+ one free character] + one of 4 stray '
                      'closing tokens (2 of every 5 pairs) + 1 free garbage character',
                thorough='length <= 4 (CTX_S, CTX_SU), <= 3 default; all skeletons, all hole windows; all 76 base x stray '
                         'pairs with 2 free garbage characters'),
    stubs=['logging disabled', 'step budget on LatexTokenReader.peek_token: exceeding 400+60(n+2)^2 peeks is reported as '
           'non-termination'],
    outside=['longer strings', 'content after the first error (nothing is required of it)',
             'stray tokens other than }, \\end{E}, \\), \\]'],
)
