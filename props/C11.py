"""C11 Tokenizer is lossless, always advances, and peeking has no effect."""
from vlib.driver import Cond, ord_partition
from vlib.common import Violation, require
from vlib.ctx import make_ctx_s
from pylatexenc.latexnodes import (LatexTokenReader, ParsingState, LatexWalkerEndOfStream,
                                   LatexWalkerTokenParseError)
from pylatexenc.latexwalker import get_default_latex_context_db

ID = 'C11'
TITLE = 'Tokenizer is lossless, always advances, and peeking has no effect'

CFG = {
    'default': dict(),
    'math_dollar': dict(in_math_mode=True, math_mode_delimiter='$'),
    'math_ddollar': dict(in_math_mode=True, math_mode_delimiter='$$'),
    'math_paren': dict(in_math_mode=True, math_mode_delimiter='\\('),
    'math_brack': dict(in_math_mode=True, math_mode_delimiter='\\['),
    'math_env': dict(in_math_mode=True, math_mode_delimiter=None),
    'no_macros': dict(enable_macros=False),
    'no_env': dict(enable_environments=False),
    'no_comments': dict(enable_comments=False),
    'no_groups': dict(enable_groups=False),
    'no_math': dict(enable_math=False),
    'no_par': dict(enable_double_newline_paragraphs=False),
    'grp_brackets': dict(latex_group_delimiters=[('{', '}'), ('[', ']')]),
    'forbidden': dict(forbidden_characters='$#a'),
    'ctx_s': dict(latex_context='S'),
    'ctx_s_nospecials': dict(latex_context='S', enable_specials=False),
    'ctx_s_nopar_math': dict(latex_context='S', enable_double_newline_paragraphs=False,
                             in_math_mode=True, math_mode_delimiter='$'),
    'ctx_d': dict(latex_context='D'),
    'altchars': dict(macro_escape_char='!', comment_start='#'),
    'all_off': dict(enable_macros=False, enable_environments=False, enable_comments=False,
                    enable_groups=False, enable_math=False, enable_double_newline_paragraphs=False),
}

_CTXD = None


def make_ps(cfgname, s):
    global _CTXD
    kw = dict(CFG[cfgname])
    c = kw.get('latex_context')
    if c == 'S':
        kw['latex_context'] = make_ctx_s()
    elif c == 'D':
        if _CTXD is None:
            _CTXD = get_default_latex_context_db()
        kw['latex_context'] = _CTXD
    return ParsingState(s=s, **kw)


def warmup():
    for c in CFG:
        body_tok('a \\b{$}%\n\n x--', c, True)


def tok_tuple(t):
    return (t.tok, t.arg, t.pos, t.pos_end, t.pre_space, getattr(t, 'post_space', ''))


def body_tok(s, cfgname, tolerant, dance=False):
    """dance=False: read tokens one after the other (lossless / advances / bounded number of reads);
    dance=True: additionally peek twice before and move back + re-read after every read."""
    ps = make_ps(cfgname, s)
    r = LatexTokenReader(s, tolerant_parsing=tolerant)
    out = ''
    n = 0
    ended = False
    while True:
        p0 = r.cur_pos()
        try:
            if dance:
                t1 = r.peek_token(ps)
                require(r.cur_pos() == p0, 'peek_token moved the position')
                t2 = r.peek_token(ps)
                require(tok_tuple(t1) == tok_tuple(t2), 'two successive peeks return different tokens')
                require(r.cur_pos() == p0, 'second peek_token moved the position')
            t = r.next_token(ps)
        except LatexWalkerEndOfStream as e:
            out += (e.final_space or '')
            ended = True
            break
        except LatexWalkerTokenParseError:
            require(not tolerant, 'tolerant token reading raised a token parse error')
            break
        if dance:
            require(tok_tuple(t) == tok_tuple(t1), 'next_token differs from the peeked token')
        p1 = r.cur_pos()
        require(p1 > p0, 'next_token did not advance the position')
        require(p1 <= len(s), 'position beyond end of input')
        require(p0 + len(t.pre_space) == t.pos and t.pos <= t.pos_end <= p1,
                'token span inconsistent with reader position')
        if dance:
            r.move_to_token(t)
            require(r.cur_pos() == p0, 'move_to_token did not go back to the start of the token')
            t3 = r.next_token(ps)
            require(tok_tuple(t3) == tok_tuple(t), 're-reading a token after move_to_token gives a different token')
            require(r.cur_pos() == p1, 're-reading a token ends at a different position')
        n += 1
        require(n <= len(s), 'more reads than input characters')
        out += t.pre_space + s[t.pos:t.pos_end]
    if ended:
        require(out == s, 'tokens do not reconstruct the input')
    else:
        require(s.startswith(out), 'tokens before the error are not a prefix of the input')
    return n >= 2


def _skel_pre(sk):
    return ['len(s) == %d' % len(sk)] + ['s[%d] == chr(%d)' % (i, ord(ch)) for i, ch in enumerate(sk) if ch != '?']


SKELS = [('begin', '\\begin?{?}'), ('end', '?\\end{?}'), ('beginx', '\\begin??'), ('macro_sp', '\\ab?\n?\n'),
         ('comment', '%?\n?\n?'), ('par', '?\n?\n\n?'), ('dollars', '$?$$$?'), ('esc_end', 'ab ?\\')]


def conditions(tier):
    quick = tier == 'quick'
    conds = []

    def add(c, tol, pre, tag, dance=False, timeout=200, cost=1, smoke=()):
        conds.append(Cond('%s_%s_%s_%s' % ('peek' if dance else 'tok', c, 'tol' if tol else 'strict', tag), 's: str',
                          pre, 'body_tok(s, %r, %r, %r)' % (c, tol, dance), timeout=timeout, cost=cost, smoke=smoke))
    SM = [dict(s='a\\'), dict(s=' \n\n'), dict(s='$$'), dict(s='\\begin{a} %x\n\n\n y\\'), dict(s='\\end'),
          dict(s='$$$ \\[--- ~')]
    if quick:
        cfgs = ['default', 'math_dollar', 'math_brack', 'no_macros', 'no_env', 'no_comments', 'no_groups',
                'no_par', 'grp_brackets', 'forbidden', 'ctx_s', 'ctx_s_nopar_math', 'altchars', 'all_off']
        for k, c in enumerate(cfgs):
            add(c, k % 2 == 0, ['len(s) <= 2'], 'le2', smoke=SM)
        add('default', False, ['len(s) <= 2'], 'le2')
        for c, tol in [('default', True), ('default', False), ('forbidden', True)]:
            add(c, tol, ['len(s) == 3'], 'eq3', timeout=400, cost=5)
        for tag, pre in ord_partition('s', 0, (33, 92, 93)):
            add('ctx_s', True, ['len(s) == 3', pre], 'eq3_' + tag, timeout=400, cost=5)
        for c, tol in [('default', True), ('default', False), ('forbidden', True), ('ctx_s', True)]:
            add(c, tol, ['len(s) <= 2'], 'le2', dance=True, smoke=SM)
        for nm, sk in SKELS:
            add('default', True, _skel_pre(sk), 'skel_' + nm, smoke=[dict(s=sk.replace('?', ' '))])
            if nm in ('begin', 'dollars', 'esc_end'):
                add('default', True, _skel_pre(sk), 'skel_' + nm, dance=True)
    else:
        for c in CFG:
            for tol in (False, True):
                n = 3 if c == 'ctx_d' else 4
                add(c, tol, ['len(s) <= %d' % (n - 2)], 'le%d' % (n - 2), timeout=900, smoke=SM)
                add(c, tol, ['len(s) == %d' % (n - 1)], 'eq%d' % (n - 1), timeout=1800, cost=3)
                if c in ('default', 'ctx_s', 'math_dollar', 'forbidden', 'grp_brackets', 'altchars', 'ctx_d'):
                    add(c, tol, ['len(s) == %d' % n], 'eq%d' % n, timeout=7200, cost=20)
                add(c, tol, ['len(s) <= 2'], 'le2', dance=True, timeout=900)
                if c in ('default', 'ctx_s', 'forbidden'):
                    add(c, tol, ['len(s) == 3'], 'eq3', dance=True, timeout=3600, cost=5)
        for nm, sk in SKELS:
            for c in ('default', 'ctx_s', 'math_dollar', 'no_par', 'altchars'):
                for tol in (False, True):
                    add(c, tol, _skel_pre(sk), 'skel_' + nm, timeout=1800, smoke=[dict(s=sk.replace('?', ' '))])
                    add(c, tol, _skel_pre(sk), 'skel_' + nm, dance=True, timeout=1800)
    return conds


META = dict(
    functions=['pylatexenc.latexnodes.LatexTokenReader.peek_token/next_token/move_to_token/move_past_token/cur_pos',
               'LatexTokenReader.impl_peek_token/impl_peek_space_chars/impl_char_token/impl_maybe_read_math_mode_delimiter/'
               'impl_read_macro/impl_read_environment/impl_read_comment', 'LatexTokenReaderBase.next_token',
               'ParsingState.__init__/finalize_state', 'LatexContextDb.test_for_specials/get_specials_spec (ctx_* configs)'],
    bounds=dict(quick='sequential reads: every Unicode string of length <= 2 under 14 parsing-state configurations (strict and '
                      'tolerant alternating), length 3 under default strict/tolerant, CTX_S tolerant, forbidden-characters '
                      'tolerant; peek/move-back/re-read: length <= 2 under 4 configurations; 8 pinned skeletons (<= 10 '
                      'characters, 2-3 free holes) under the default state, tolerant',
                thorough='sequential reads: length <= 3 under all 20 configurations x strict/tolerant, length 4 under 7 of '
                         'them (default context db: 3); peek/re-read: length <= 2 everywhere, 3 under 3 configurations; '
                         'skeletons under 5 configurations x strict/tolerant'),
    stubs=['logging disabled'],
    outside=['strings longer than the bounds except the listed skeletons', 'configurations not listed in props/C11.py CFG',
             'custom token reader subclasses'],
)
