from pylatexenc.macrospec import LatexContextDb, MacroSpec
import logging
logging.disable(logging.CRITICAL)

CATS = ['A', 'B', 'C']

def check_hist(o1: int, o2: int, o3: int, r1: int, r2: int, r3: int, d1: int, d2: int, d3: int) -> bool:
    """
    pre: 0 <= o1 <= 3 and 0 <= o2 <= 3 and 0 <= o3 <= 3
    pre: 0 <= r1 <= 3 and 0 <= r2 <= 3 and 0 <= r3 <= 3
    pre: 1 <= d1 <= 3 and 1 <= d2 <= 3 and 1 <= d3 <= 3
    post: _
    """
    db = LatexContextDb()
    ref = []   # list of (cat, {name: spec})
    refnames = ['A', 'B', 'C', 'Z']
    for cat, o, r, d in zip(CATS, (o1, o2, o3), (r1, r2, r3), (d1, d2, d3)):
        specs = {}
        if d & 1: specs['m'] = MacroSpec('m', '{')
        if d & 2: specs['n'] = MacroSpec('n', '[')
        kw = {}
        refcat = refnames[r]
        names = [c for c, _ in ref]
        if o == 1:
            kw['prepend'] = True; idx = 0
        elif o == 2:
            kw['insert_before'] = refcat; idx = names.index(refcat) if refcat in names else 0
        elif o == 3:
            kw['insert_after'] = refcat; idx = names.index(refcat) + 1 if refcat in names else len(names)
        else:
            idx = len(names)
        db.add_context_category(cat, macros=list(specs.values()), **kw)
        ref.insert(idx, (cat, specs))
        if db.categories() != [c for c, _ in ref]:
            return False
        for nm in ('m', 'n', 'q'):
            exp = None
            for c, sp in ref:
                if nm in sp:
                    exp = sp[nm]; break
            if db.get_macro_spec(nm) is not exp:
                return False
    return True
