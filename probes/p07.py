from pylatexenc.latex2text import LatexNodes2Text
from pylatexenc.latexwalker import LatexWalkerParseError
import logging
logging.disable(logging.CRITICAL)
L2T = LatexNodes2Text()
def check_l2t(s: str) -> bool:
    """
    pre: len(s) <= 2
    post: _
    """
    try:
        r = L2T.latex_to_text(s, tolerant_parsing=False)
    except LatexWalkerParseError:
        return True
    return isinstance(r, str)
