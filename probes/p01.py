from pylatexenc.latexwalker import LatexWalker, LatexWalkerParseError
from pylatexenc.latexnodes.parsers import LatexGeneralNodesParser
import logging
logging.disable(logging.CRITICAL)

def check_tile(s: str) -> bool:
    """
    pre: len(s) <= 3
    post: _
    """
    w = LatexWalker(s, tolerant_parsing=False)
    try:
        nodes, _ = w.parse_content(LatexGeneralNodesParser())
    except LatexWalkerParseError:
        return True
    p = 0
    for n in nodes:
        if n.pos != p:
            return False
        p = n.pos_end
    return p == len(s)
