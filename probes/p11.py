from pylatexenc.latexnodes import LatexTokenReader, ParsingState, LatexWalkerEndOfStream, LatexWalkerTokenParseError
import logging
logging.disable(logging.CRITICAL)

ALPHA = 'a \n\\{}$%[]&~'

def check_tok(s: str) -> bool:
    """
    pre: len(s) <= 3
    pre: all(c in 'a \\n\\\\{}$%' for c in s)
    post: _
    """
    ps = ParsingState(s=s)
    r = LatexTokenReader(s, tolerant_parsing=False)
    out = ''
    n = 0
    try:
        while True:
            p0 = r.cur_pos()
            t = r.next_token(ps)
            n += 1
            if n > len(s)+1:
                return False
            if r.cur_pos() <= p0:
                return False
            out += t.pre_space + s[t.pos:t.pos_end]
    except LatexWalkerEndOfStream as e:
        out += e.final_space
    except LatexWalkerTokenParseError:
        return True
    return out == s
