from pylatexenc.latexwalker import LatexWalker, LatexWalkerParseError
from pylatexenc.latexnodes.parsers import LatexGeneralNodesParser
from pylatexenc.macrospec import LatexContextDb, MacroSpec
import pylatexenc.latexnodes.parsers._stdarg as SA
import logging
logging.disable(logging.CRITICAL)

def mkctx():
    SA._std_arg_parser_instances.clear()
    db = LatexContextDb()
    db.add_context_category('c', macros=[MacroSpec('a', '{'), MacroSpec('v', 'v')])
    return db

def dump(n):
    if n is None: return None
    if hasattr(n, 'nodelist') and not hasattr(n, 'pos_end'):
        return [dump(x) for x in n]
    t = type(n).__name__
    if t == 'LatexNodeList':
        return ['L', n.pos, n.pos_end] + [dump(x) for x in n.nodelist]
    r = [t, n.pos, n.pos_end]
    for f in ('chars', 'macroname', 'delimiters', 'comment'):
        if hasattr(n, f): r.append(getattr(n, f))
    if getattr(n, 'nodeargd', None) is not None:
        r.append([dump(a) for a in n.nodeargd.argnlist])
    if getattr(n, 'nodelist', None) is not None:
        r.append(dump(n.nodelist))
    return r

def run(ctx, s):
    try:
        nl, _ = LatexWalker(s, latex_context=ctx, tolerant_parsing=False).parse_content(LatexGeneralNodesParser())
        return dump(nl)
    except LatexWalkerParseError as e:
        return ['ERR', e.pos]

def check_hist(s1: str, s2: str) -> bool:
    """
    pre: len(s1) == 5 and s1[0] == chr(92) and s1[1] == 'v'
    pre: len(s2) == 6 and s2[0] == chr(92) and s2[1] == 'v' and s2[2] == '{' and s2[5] == '}'
    post: _
    """
    a = run(mkctx(), s2)
    k = mkctx()
    run(k, s1)
    b = run(k, s2)
    return a == b
