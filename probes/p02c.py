from pylatexenc.latexwalker import LatexWalker, LatexWalkerParseError
from pylatexenc.latexnodes.parsers import LatexGeneralNodesParser
from pylatexenc.latexnodes import nodes as N
from pylatexenc.macrospec import LatexContextDb, MacroSpec, EnvironmentSpec, SpecialsSpec
import pylatexenc.latexnodes.parsers._stdarg as SA
import logging
logging.disable(logging.CRITICAL)

def mkctx():
    SA._std_arg_parser_instances.clear()
    db = LatexContextDb()
    db.add_context_category('c', macros=[
        MacroSpec('a', '{'), MacroSpec('b', '[{'), MacroSpec('c', '*'), MacroSpec('d', ''),
    ], environments=[EnvironmentSpec('e', '[')], specials=[SpecialsSpec('~'), SpecialsSpec('--'), SpecialsSpec('---')])
    return db


SPECIALS = '[]{}%$&~#^_-' + chr(92)

def recognize(s):
    """independent recognizer for: \b WS? ([ P? ])? WS? ( {P} | P ) CONT?   returns (opt, c1, braced, c2, cont) or None"""
    n = len(s)
    if n < 3 or s[0] != chr(92) or s[1] != 'b':
        return None
    i = 2
    nl = 0
    ws1 = False
    if i < n and s[i].isspace():
        if s[i] == chr(10): nl += 1
        ws1 = True
        i += 1
    opt = False; c1 = ''
    if i < n and s[i] == '[':
        opt = True
        i += 1
        if i < n and s[i].isalnum() and ord(s[i]) < 128:
            c1 = s[i]; i += 1
        if not (i < n and s[i] == ']'):
            return None
        i += 1
        if i < n and s[i].isspace():
            if s[i] == chr(10): nl += 1
            i += 1
    if nl >= 2:
        return None
    if i >= n:
        return None
    if s[i] == '{':
        if not (i + 2 < n and s[i+1].isalnum() and ord(s[i+1]) < 128 and s[i+2] == '}'):
            return None
        braced = True; c2 = s[i+1]; i += 3
    else:
        if not (s[i].isalnum() and ord(s[i]) < 128):
            return None
        if not opt and not ws1:
            return None   # "\bx" is another macro name
        braced = False; c2 = s[i]; i += 1
    cont = s[i:]
    if len(cont) > 1:
        return None
    if cont != '' and any(cont == ch for ch in SPECIALS):
        return None
    return (opt, c1, braced, c2, cont)


def ws_ok(c): return c.isspace()
def plain_ok(c): return c.isalnum() and ord(c) < 128

def check_t(s: str) -> bool:
    """
    pre: len(s) == 11
    pre: s[0] == chr(92) and s[1] == 'b' and s[3] == '[' and s[5] == ']' and s[7] == '{' and s[9] == '}'
    pre: ws_ok(s[2]) and ws_ok(s[6]) and plain_ok(s[4]) and plain_ok(s[8])
    pre: not (s[2] == chr(10) and s[6] == chr(10))
    pre: not any(s[10] == ch for ch in SPECIALS)
    post: _
    """
    w = LatexWalker(s, latex_context=mkctx(), tolerant_parsing=False)
    nodes, _ = w.parse_content(LatexGeneralNodesParser())
    n0 = nodes[0]
    if not n0.isNodeType(N.LatexMacroNode) or n0.macroname != 'b':
        return False
    a = n0.nodeargd.argnlist
    if len(a) != 2:
        return False
    if a[0] is None or not a[0].isNodeType(N.LatexGroupNode) or a[0].delimiters != ('[', ']'):
        return False
    if a[0].nodelist.latex_verbatim() != s[4]:
        return False
    if not a[1].isNodeType(N.LatexGroupNode) or a[1].nodelist.latex_verbatim() != s[8]:
        return False
    rest = ''.join(n.latex_verbatim() for n in nodes[1:])
    return rest == s[10]
