from pylatexenc.latexwalker import LatexWalker, LatexWalkerParseError
from pylatexenc.latexnodes.parsers import LatexGeneralNodesParser
from pylatexenc.macrospec import LatexContextDb, MacroSpec
import pylatexenc.latexnodes.parsers._stdarg as SA
import re, logging
logging.disable(logging.CRITICAL)
RX = re.compile(r'\s*,\s*')
def mkctx():
    SA._std_arg_parser_instances.clear()
    db = LatexContextDb()
    db.add_context_category('c', macros=[MacroSpec('d', '')])
    return db

def check_split(s: str, ms: int, keep_empty: bool) -> bool:
    """
    pre: len(s) == 3 and -1 <= ms <= 2
    post: _
    """
    try:
        nl, _ = LatexWalker(s, latex_context=mkctx(), tolerant_parsing=False).parse_content(LatexGeneralNodesParser())
    except LatexWalkerParseError:
        return True
    max_split = None if ms < 0 else ms
    parts = nl.split_at_chars(',', max_split=max_split, keep_empty=keep_empty)
    # every returned chars node is positioned correctly
    for p in parts:
        for n in p:
            if n is not None and n.isNodeType(type(nl[0])) and hasattr(n, 'chars'):
                if s[n.pos:n.pos_end] != n.chars:
                    return False
    if max_split is not None and len(parts) > max_split + 1:
        return False
    if keep_empty and max_split is None:
        # joined with separators reproduces the source
        if ','.join(p.latex_verbatim() for p in parts) != s:
            return False
    return True
