from pylatexenc.latexwalker import LatexWalker, LatexWalkerParseError
from pylatexenc.latexnodes.parsers import LatexGeneralNodesParser
from pylatexenc.macrospec import LatexContextDb, MacroSpec, EnvironmentSpec, SpecialsSpec
import logging
logging.disable(logging.CRITICAL)

def mkctx():
    db = LatexContextDb()
    db.add_context_category('c', macros=[
        MacroSpec('a', '{'), MacroSpec('b', '[{'), MacroSpec('c', '*'), MacroSpec('d', ''),
    ], environments=[EnvironmentSpec('e', '[')], specials=[SpecialsSpec('~'), SpecialsSpec('--'), SpecialsSpec('---')])
    db.set_unknown_macro_spec(MacroSpec(''))
    db.set_unknown_environment_spec(EnvironmentSpec(''))
    return db
CTX = mkctx()

def walk(n, s):
    # returns False on violation
    return True

def check_tile(s: str) -> bool:
    """
    pre: len(s) <= 3
    post: _
    """
    w = LatexWalker(s, latex_context=CTX, tolerant_parsing=False)
    try:
        nodes, _ = w.parse_content(LatexGeneralNodesParser())
    except LatexWalkerParseError:
        return True
    except TypeError:
        return True
    p = 0
    for n in nodes:
        if n.pos != p:
            return False
        p = n.pos_end
    return p == len(s)
