from pylatexenc.latexencode import UnicodeToLatexEncoder, UnicodeToLatexConversionRule, RULE_DICT
from pylatexenc.latexencode.get_builtin_rules import get_builtin_uni2latex_dict
import pylatexenc.latexencode._unicode_to_latex_encoder as M
from collections.abc import Mapping
import logging
logging.disable(logging.CRITICAL)

class _UD:
    @staticmethod
    def normalize(form, s):
        return s
M.unicodedata = _UD

class BisectMap(Mapping):
    def __init__(self, d):
        self._keys = sorted(d.keys())
        self._vals = [d[k] for k in self._keys]
    def _find(self, o):
        lo, hi = 0, len(self._keys)
        while lo < hi:
            mid = (lo + hi) // 2
            if self._keys[mid] < o:
                lo = mid + 1
            else:
                hi = mid
        if lo < len(self._keys) and self._keys[lo] == o:
            return lo
        return -1
    def __contains__(self, o):
        return self._find(o) >= 0
    def __getitem__(self, o):
        i = self._find(o)
        if i < 0:
            raise KeyError(o)
        return self._vals[i]
    def __iter__(self):
        return iter(self._keys)
    def __len__(self):
        return len(self._keys)

ENC = UnicodeToLatexEncoder(conversion_rules=[UnicodeToLatexConversionRule(RULE_DICT, BisectMap(get_builtin_uni2latex_dict()))],
    unknown_char_policy='replace', unknown_char_warning=False)

def check_one(s: str) -> bool:
    """
    pre: len(s) == 1
    post: _
    """
    r = ENC.unicode_to_latex(s)
    return r.isascii()
