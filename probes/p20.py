from pylatexenc._util import LineNumbersCalculator

def check_lineno(s: str, pos: int) -> bool:
    """
    pre: len(s) <= 5
    pre: 0 <= pos <= len(s)
    post: _
    """
    c = LineNumbersCalculator(s)
    ln, col = c.pos_to_lineno_colno(pos)
    # oracle: line start
    k = ln - 1
    # line start = index after k-th newline
    starts = [0]
    for i, ch in enumerate(s):
        if ch == '\n':
            starts.append(i+1)
    return 0 <= k < len(starts) and starts[k] + col == pos and col >= 0 and (k+1 == len(starts) or pos < starts[k+1])
