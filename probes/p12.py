from pylatexenc.latex2text import LatexNodes2Text
from pylatexenc.latexwalker import LatexWalkerParseError
import logging
logging.disable(logging.CRITICAL)
L = LatexNodes2Text()
LK = LatexNodes2Text(keep_comments=True)
SK = '\\textbf%QZ'
def check_c(s: str) -> bool:
    """
    pre: len(s) == 16 and s[:10] == SK and s[11] == chr(10) and s[12:15] == '{x}'
    pre: s[10] != chr(10) and s[10] != chr(13)
    post: _
    """
    try:
        r = L.latex_to_text(s, tolerant_parsing=False)
        rk = LK.latex_to_text(s, tolerant_parsing=False)
    except LatexWalkerParseError:
        return True
    return ('QZ' not in r) and ('%QZ' + s[10] in rk) and ('x' in r)
