from pylatexenc.latexnodes import LatexTokenReader, ParsingState, LatexWalkerEndOfStream, LatexWalkerTokenParseError
import logging
logging.disable(logging.CRITICAL)

MENU = [
    dict(),
    dict(in_math_mode=True, math_mode_delimiter='$'),
    dict(in_math_mode=True, math_mode_delimiter='$$'),
    dict(in_math_mode=False, math_mode_delimiter=None),
    dict(latex_inline_math_delimiters=[('$', '!')]),
    dict(latex_display_math_delimiters=[('$$', '!!')]),
    dict(latex_group_delimiters=[('{', '}'), ('[', ']')]),
    dict(enable_math=False),
    dict(enable_groups=False),
    dict(macro_escape_char='!'),
    dict(comment_start='!'),
    dict(forbidden_characters='!'),
]

def toks(ps, s):
    r = LatexTokenReader(s)
    out = []
    try:
        for _ in range(len(s) + 2):
            t = r.next_token(ps)
            out.append((t.tok, t.arg if isinstance(t.arg, str) else 'SPEC', t.pos, t.pos_end, t.pre_space))
    except LatexWalkerEndOfStream as e:
        out.append(('EOS', e.final_space))
    except LatexWalkerTokenParseError as e:
        out.append(('ERR', e.pos))
    return out

def check_chain(i: int, j: int, s: str) -> bool:
    """
    pre: 0 <= i < 12 and 0 <= j < 12 and len(s) <= 2
    post: _
    """
    p0 = ParsingState(s=s)
    f0 = repr(sorted(p0.get_fields().items(), key=lambda kv: kv[0]))
    p1 = p0.sub_context(**MENU[i])
    f1 = repr(sorted(p1.get_fields().items(), key=lambda kv: kv[0]))
    p2 = p1.sub_context(**MENU[j])
    if repr(sorted(p0.get_fields().items(), key=lambda kv: kv[0])) != f0: return False
    if repr(sorted(p1.get_fields().items(), key=lambda kv: kv[0])) != f1: return False
    fresh = ParsingState(**p2.get_fields())
    return toks(p2, s) == toks(fresh, s)
