import pylatexenc.latex2text._inputlatexfile as M
import logging
logging.disable(logging.CRITICAL)

class _Exit(Exception): pass

def check_input(base: str, name: str, r_plain: str, r_tex: str, r_latex: str,
                e_plain: bool, e_tex: bool, e_latex: bool) -> bool:
    """
    pre: len(base) <= 3 and len(name) <= 3 and len(r_plain) <= 4 and len(r_tex) <= 8 and len(r_latex) <= 10
    pre: base.startswith('/') and not base.endswith('/') and '//' not in base
    pre: r_plain.startswith('/') and r_tex.startswith('/') and r_latex.startswith('/')
    post: _
    """
    # model: realpath is an uninterpreted function on the 4 path strings that occur
    joined = base + '/' + name
    real = {base: base, joined: r_plain}
    class P:
        @staticmethod
        def join(a, b): return a + '/' + b
        @staticmethod
        def realpath(p):
            return real[p]
        @staticmethod
        def exists(p):
            if p == r_plain: return e_plain
            if p == r_plain + '.tex': return e_tex
            if p == r_plain + '.latex': return e_latex
            return False
        @staticmethod
        def isfile(p):
            return P.exists(p)
    class OS: path = P
    opened = []
    def _open(p, *a, **k):
        opened.append(p)
        raise IOError("model")
    M.os = OS
    M.__dict__['open'] = _open
    try:
        M.read_latex_file(base, True, name)
    finally:
        import os as _os
        M.os = _os
        del M.__dict__['open']
    # the file actually opened resolves (symlinks) to: r_plain / r_tex / r_latex
    for p in opened:
        if p == r_plain: tgt = r_plain
        elif p == r_plain + '.tex': tgt = r_tex
        else: tgt = r_latex
        if not (tgt == base or tgt.startswith(base + '/')):
            return False
    return True
