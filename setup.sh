#!/bin/bash
# Builds /verif/.venv: overlay of /venv (repo deps) + crosshair-tool from the offline wheelhouse.
set -e
cd "$(dirname "$0")"
if [ -x .venv/bin/python ] && .venv/bin/python -c "import crosshair, z3, pylatexenc" 2>/dev/null; then
  exit 0
fi
rm -rf .venv
/venv/bin/python -m venv .venv
SP=$(.venv/bin/python -c "import site; print(site.getsitepackages()[0])")
printf '/venv/lib/python3.12/site-packages\n/repo\n' > "$SP/verif_overlay.pth"
PIP_NO_INDEX=1 .venv/bin/pip install -q --no-index --find-links /opt/veriftools/wheels crosshair-tool
.venv/bin/python -c "import crosshair, z3, pylatexenc; print('overlay ok', z3.get_version_string(), pylatexenc.__file__)"
