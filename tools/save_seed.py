#!/usr/bin/env python3
"""usage: save_seed.py <PROP> <srcdir> <name> <detected: yes|no|partly> <what I ran / result>"""
import json, os, shutil, sys
prop, src, name, detected, ran = sys.argv[1:6]
dst = '/verif/seeded/%s' % name
os.makedirs(dst, exist_ok=True)
for f in ('patch.diff', 'demo.py', 'notes.txt'):
    if os.path.exists(os.path.join(src, f)):
        shutil.copy(os.path.join(src, f), dst)
notes = open(os.path.join(src, 'notes.txt')).read() if os.path.exists(os.path.join(src, 'notes.txt')) else ''
json.dump(dict(property=prop, needs_to_manifest=notes.strip(), confirmed_by_me='applied in a scratch worktree of /repo HEAD: '
               'existing suite 286 passed with the change; demo.py exits 1 with the change and 0 without',
               detected=detected, what_i_ran=ran, origin='independent sub-agent given only the property text'),
          open(os.path.join(dst, 'meta.json'), 'w'), indent=1)
print('saved', dst)
