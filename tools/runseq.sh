#!/bin/bash
# usage: tools/runseq.sh <logfile> PROP [PROP...]  : run quick checks one after the other, log summaries
LOG=$1; shift
for P in "$@"; do
  echo "=== $P $(date +%H:%M:%S)" >> $LOG
  ( cd /verif && ./check $P --tier ${TIER:-quick} 2>/dev/null | cut -c1-400 | tail -40 ) >> $LOG
  echo "rc=$? $(date +%H:%M:%S)" >> $LOG
done
echo "=== DONE" >> $LOG
