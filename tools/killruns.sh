#!/bin/bash
# kill running check drivers / crosshair workers (helper for interactive work)
for p in $(pgrep -f "vlib\.driver|vlib\.ch_run"); do kill $p 2>/dev/null; done
