#!/usr/bin/env python3
import json, sys, glob, jsonschema
sch = json.load(open('/root/.vp/EVIDENCE.schema.json'))
for f in sorted(glob.glob('/verif/evidence/*.json')):
    e = json.load(open(f))
    jsonschema.validate(e, sch)
    c = e['coverage']
    print(f.split('/')[-1], e['tier'], 'ok', 'paths', c['evaluations'], 'confirmed', c['distinct_nontrivial'], '/', c['conditions_total'],
          'inconcl', len(c['conditions_inconclusive']), 'viol', e['violations'], 'wall', e['wall_s'])
jsonschema.validate(json.load(open('/verif/MANIFEST.json')), json.load(open('/root/.vp/MANIFEST.schema.json')))
print('manifest ok')
