claim('C20',
      'Bounded-exhaustive: for every Unicode string up to the stated length, every position and arbitrary integer '
      'offsets the solver-driven search exhausted all paths of LineNumbersCalculator / pos_to_lineno_colno against an '
      'independent definition; error half on pinned skeletons. Right level: the kernel is small integer/string '
      'arithmetic where the rare inputs (newline adjacency, end position) are exactly what a solver enumerates.',
      'Trusts CrossHair/z3 models of str/int and bisect; bound on string length; the oracle in props/C20.py.',
      'DESIGN.md section 4 C20')
claim('C11',
      'Bounded-exhaustive symbolic execution of the real LatexTokenReader: for every Unicode string up to the stated '
      'length and each listed parsing-state configuration, in strict and tolerant token reading, all paths of the '
      'read loop were exhausted with the assertions reconstruction == input, strict advance, <= len(s) reads, '
      'peek == next without moving, move-back + re-read == same token. Right level: the failures (zero-width recovery '
      'token on a trailing escape character, a peek that moves) need one specific last character or a forbidden '
      'character, which the solver finds and sampling rarely does.',
      'Trusts CrossHair/z3 string models; bounds on length and the configuration list in props/C11.py.',
      'DESIGN.md section 4 C11')
claim('C05',
      'Bounded-exhaustive symbolic execution of the real strict parser: for every Unicode string up to the stated '
      'length (three contexts) and for pinned document skeletons with free holes, every path either returns or raises '
      'LatexWalkerParseError whose pos is an int inside the input with matching lineno/colno; and for 19 well-formed '
      'base documents a free character inserted at token boundaries makes the parse fail whenever it is an unmatched '
      'brace or math shift. Right level: the wrong-exception inputs are specific token adjacencies ("\\a$", an unknown '
      'control symbol as a single-token argument) that the solver enumerates through the branch structure.',
      'Trusts CrossHair/z3; bounds on length, the skeleton and base-document lists in props/C05.py and vlib/parsefam.py.',
      'DESIGN.md section 4 C05')
claim('C06',
      'Bounded-exhaustive symbolic execution of the real parser in tolerant mode under a step budget: for every Unicode '
      'string up to the stated length and pinned skeletons with a free hole, no exception, termination, a node list '
      'returned, and a structural dump identical to the strict parse whenever strict succeeds; for well-formed base '
      'documents followed by a stray closing token and free garbage, the top-level nodes of the valid prefix are '
      'returned unchanged. Right level: non-termination and total loss of output depend on the exact ending of the '
      'input (a trailing escape character, which token meets the error), which path-exhaustive search covers.',
      'Trusts CrossHair/z3; step budget 400+60(n+2)^2 token peeks stands for "terminates"; bounds and skeleton lists in '
      'props/C06.py.',
      'DESIGN.md section 4 C06')
claim('C01',
      'Bounded-exhaustive symbolic execution of the real strict parser with an arithmetic oracle on the source string: '
      'for every Unicode string up to the stated length (three contexts) and 41+ document skeletons with free holes '
      'covering every standard argument type, the top-level nodes tile the input, children nest in order without '
      'overlap, chars/comment text equals the source slice and the verbatim concatenation is the input; the '
      'nesting part also on tolerant parses. Right level: span arithmetic errors show only for particular adjacencies '
      '(whitespace/comment/paragraph next to a construct), which holes ranging over all Unicode enumerate.',
      'Trusts CrossHair/z3; bounds and skeleton list in props/C01.py / vlib/parsefam.py; tree walk over public attributes.',
      'DESIGN.md section 4 C01')
claim('C14',
      'Bounded-exhaustive symbolic execution of the real LatexContextDb over build histories: operation selectors '
      '(category kind, 8 placements, definition sets, unknown specs) are symbolic integers, so the solver-driven search '
      'enumerates every history of up to 3 additions and every pair of 8 derivations (extended_with / filtered_context) '
      'on top of 2 additions; after each history every lookup, test_for_specials, categories() and iter_*_specs() is '
      'compared with a reference model and with the database\'s own reported order; parents must answer as before; '
      'frozen databases must refuse changes. Right level: the defects are ordering slips visible only for particular '
      'placement sequences (insert_after on an appended category; filtering an auto-extended database).',
      'Trusts CrossHair/z3; reference model in props/C14.py written from the docstrings; bounded history length and name universe.',
      'DESIGN.md section 4 C14')
claim('C15',
      'Symbolic execution of the real read_latex_file / read_input_file / \\input handling against a modelled file system: '
      'os.path.realpath is an uninterpreted function whose answer for the candidate that exists is a symbolic string '
      '(pinned shape, free characters ranging over all Unicode), existence is given per candidate, open() records the resolved '
      'target; assertion: nothing outside realpath(dir) is ever opened or returned, and names resolving inside are read. '
      'Right level: the file system is environment, so the layout becomes the symbolic input; the failing layouts (a sibling '
      'directory whose name extends the directory name, <dir>.tex next to the directory, a completed name that is a symlink) '
      'are single points in that space. The model is validated on a real temporary directory tree on every run.',
      'Trusts the environment model in props/C15.py (realpath contract; exists/isfile follow links; no races); CrossHair/z3; '
      'bounded shapes of resolved targets.',
      'DESIGN.md section 4 C15')
claim('C02',
      'Bounded-exhaustive symbolic execution of the real strict parser on 66 document families rendered from a written '
      'structure (the skeleton is the specification): content holes range over all ASCII letters/digits, whitespace '
      'holes over every str.isspace() character, continuation holes over every non-active character; the parsed tree '
      '(kinds, names, delimiters, per-slot arguments or absent) must equal the structure, with and without unknown-macro '
      'fallback. Right level: structure errors depend on combinations (optional argument followed by bracket text, token '
      'argument followed by letters, star at end of input) that generated adjacency with solver-chosen characters reaches.',
      'Trusts CrossHair/z3 and the expected structures written in props/C02.py; families and one-character holes bound the claim.',
      'DESIGN.md section 4 C02')
claim('C03',
      'Bounded-exhaustive symbolic execution of latex_to_text on 40 core-sublanguage families with free content and '
      'whitespace holes under the 4 whitespace policies x keep_braced_groups, compared with a reference renderer written '
      'from the class documentation (replacement strings read from the text database at run time), plus the composition '
      'law on pairs of self-contained blocks. Right level: the whitespace-ownership rules interact with token segmentation, '
      'which only generated adjacency exercises; the solver picks the whitespace character (U+000B, U+0085, newline ...).',
      'Trusts CrossHair/z3 and the reference in props/C03.py (my reading of the documentation, validated against the '
      'unchanged tree); fill_text, list environments and non-text math modes are outside.',
      'DESIGN.md section 4 C03')
claim('C04',
      'Bounded-exhaustive symbolic execution of UnicodeToLatexEncoder / PartialLatexToLatexEncoder against a 40-line '
      'reference encoder written from the statement: every Unicode string up to the bound for generated rule lists '
      '(dict, callables consuming 1-2 characters, per-rule protection, overlaps) under a cover of protection schemes x '
      'policies x non_ascii_only, custom result class, the default table with one wildcard over all Unicode (BisectMap) '
      'and the concatenation law, the partial encoder against "copy one token else fall through", and the module-level '
      'cache over all option pairs. Right level: precedence/consumption/protection interact per position; U+007F and a '
      'lone trailing escape character are the rare inputs.',
      'Trusts CrossHair/z3, BisectMap (validated against the dict on import), the NFC stub (claim on the normalised string). '
      'Regex rules are outside (CrossHair models re.match(s,pos) unfaithfully) and only run concretely.',
      'DESIGN.md section 4 C04')
claim('C07',
      'Bounded-exhaustive symbolic execution of LatexNodes2Text.latex_to_text (tolerant parsing underneath) under a step '
      'budget: every Unicode string up to the bound under 3 option sets, skeletons with free holes, and every macro and '
      'environment name of both default databases (selected by a symbolic integer) in 14 / 11 uses each including empty '
      'and missing arguments, end of input, and as single-token argument of other macros. Right level: the crashes sit in '
      'replacement callables that index arguments the walker database may not provide; only every name in every argument '
      'position finds them.',
      'Trusts CrossHair/z3; step budget stands for bounded time; name lists read from /repo at run time.',
      'DESIGN.md section 4 C07')
claim('C08',
      'Symbolic execution of encoder followed by latex_to_text(strict): one wildcard character ranging (by solver-driven '
      'bisection) over the whole invertible alphabet next to pinned ASCII neighbours under 8 scheme / whitespace-policy '
      'combinations, plus free printable-ASCII neighbours around a fixed symbol: the result must equal the input. Right '
      'level: neighbour effects (control word followed by a letter or space, post-space eaten on the way back) exist only '
      'in strings, and the table is too large to trust to samples.',
      'Trusts CrossHair/z3, BisectMap, and the committed non-invertible list data/c08_noninvertible.json (constructed by the rule '
      '"fails alone", not present in the repository).',
      'DESIGN.md section 4 C08')
claim('C09',
      'Symbolic execution of call histories: document 1 (usually left unterminated, tolerant mode) then document 2 with '
      'the same context object and warm process-wide parser caches, versus document 2 with fresh objects and emptied '
      'caches; 12 skeleton pairs covering every standard argument type with free characters, free short strings, a '
      'three-call history and the shared default context; the context snapshot must not change. Right level: leaked '
      'state needs a specific first document (unbalanced verbatim braces) that the solver constructs.',
      'Fresh interpreter approximated by fresh objects + cleared module caches in one process; histories of 2-3 calls.',
      'DESIGN.md section 4 C09')
claim('C10',
      'Bounded-exhaustive symbolic execution of the strict parser with an independent recursion computing the expected '
      'math/text mode of every node (math nodes, text-mode and math-mode arguments, math environments, inheritance), '
      'displaytype and delimiter source slices; free strings, 21 nesting skeletons and 6 dollar-run documents. Right '
      'level: a wrong hand-over shows only at a particular nesting or delimiter adjacency.',
      'Trusts CrossHair/z3; the table of mode-switching macros/environments in props/C10.py; bounds as listed.',
      'DESIGN.md section 4 C10')
claim('C12',
      'Symbolic execution of latex2text on 28 marker templates (comments, formulas, discarded constructs at every nesting '
      'position) with free non-active holes, rendered under all 64 combinations of math_mode x keep_comments x whitespace '
      'policy x fill_text; marker presence/absence, verbatim source slices and delimiters are asserted. Right level: '
      'filters fail at particular positions (comment between macro and argument), not on ordinary documents.',
      'Trusts CrossHair/z3; templates bound the claim; one known finding (comment between macro and argument).',
      'DESIGN.md section 4 C12')
claim('C13',
      'Symbolic execution of the encoder with both built-in rule sets followed by a strict parse of the output: every '
      'ordering of the LaTeX-active ASCII characters (+ representatives) up to the bound under all 5 schemes, and one '
      'wildcard over all Unicode (both tables through BisectMap) alone and next to pinned neighbours; output must parse, '
      'contain no comment/environment/input-opened math, be ASCII under replace/ignore/unihex, and fail raises ValueError '
      'exactly for characters without rule outside the pass-through range. Right level: inertness is a property of '
      'every character of two 1500-2200-entry tables next to every active character.',
      'Trusts CrossHair/z3, BisectMap, NFC stub; one known finding (13 combining accents of the unicode-xml table).',
      'DESIGN.md section 4 C13')
claim('C16',
      'Differential symbolic execution: each pylatexenc-2 entry point (get_latex_nodes with 7 stop/limit variants, '
      'get_latex_expression, get_latex_braced_group, get_latex_environment, get_latex_maybe_optional_arg, get_token) '
      'against the pylatexenc-3 parser object its documentation names, for every short string and every start position '
      'plus skeletons; and every argument string over {*,[,{} up to length 3 through 6 macro and 4 environment spellings. '
      'Right level: the glue code computes positions/lengths and translates spellings; slips show for particular start '
      'positions or spellings (args_parser given as a string).',
      'Trusts CrossHair/z3; no separate oracle (differential); documented differences excluded as listed.',
      'DESIGN.md section 4 C16')
claim('C17',
      'Bounded-exhaustive symbolic execution of ParsingState.sub_context chains (79 chains of 1-2 steps over a menu of 15 '
      'field changes from 3 start states; one condition per chain): the derived state and ParsingState(**get_fields()) '
      'must produce the same token stream for every Unicode string up to the bound, and the parent fields must be '
      'unchanged. Right level: stale cached delimiter tables show only for a particular order of changes and an input '
      'containing the affected delimiter.',
      'Trusts CrossHair/z3; menu and chain length bound the claim; token streams (not full parses) are compared.',
      'DESIGN.md section 4 C17')
claim('C18',
      'Bounded-exhaustive symbolic execution of split_at_chars / split_at_node / parse_keyval_content on node lists parsed '
      'from free strings and separator skeletons, for string, regex and callable separators and every keep_empty x '
      'max_split combination, against a reference that splits only the text of character nodes (positions, source '
      'slices, identity of non-character nodes, reproduction of the source), and key-value templates under the 4 '
      'repeated-key policies. Right level: off-by-one positions and separators inside children show for particular '
      'separator placements.',
      'Trusts CrossHair/z3; statement-level oracle (upper bound on splits); keep_empty=False with max_split only sanity-checked.',
      'DESIGN.md section 4 C18')
claim('C19',
      'Bounded-exhaustive symbolic execution of LatexNodesVisitor on trees from strict and tolerant parses of free strings '
      'and 35 skeletons: a recording visitor must produce exactly the callback sequence, node identities and child-result '
      'lists of an independent post-order walk, every object once. Right level: the input shapes the tree; None bodies and '
      'absent arguments come from tolerant parses of odd inputs.',
      'Trusts CrossHair/z3; trees limited to what the bounded inputs produce.',
      'DESIGN.md section 4 C19')
ENABLED = ['C%02d' % i for i in range(1, 21)]
# thorough commands are registered only for properties whose thorough tier was run end-to-end on the final tree
THOROUGH = []
