claim('C20',
      'Bounded-exhaustive: for every Unicode string up to the stated length, every position and arbitrary integer '
      'offsets the solver-driven search exhausted all paths of LineNumbersCalculator / pos_to_lineno_colno against an '
      'independent definition; error half on pinned skeletons. Right level: the kernel is small integer/string '
      'arithmetic where the rare inputs (newline adjacency, end position) are exactly what a solver enumerates.',
      'Trusts CrossHair/z3 models of str/int and bisect; bound on string length; the oracle in props/C20.py.',
      'DESIGN.md section 4 C20')
claim('C11',
      'Bounded-exhaustive symbolic execution of the real LatexTokenReader: for every Unicode string up to the stated '
      'length and each listed parsing-state configuration, in strict and tolerant token reading, all paths of the '
      'read loop were exhausted with the assertions reconstruction == input, strict advance, <= len(s) reads, '
      'peek == next without moving, move-back + re-read == same token. Right level: the failures (zero-width recovery '
      'token on a trailing escape character, a peek that moves) need one specific last character or a forbidden '
      'character, which the solver finds and sampling rarely does.',
      'Trusts CrossHair/z3 string models; bounds on length and the configuration list in props/C11.py.',
      'DESIGN.md section 4 C11')
