claim('C20',
      'Bounded-exhaustive: for every Unicode string up to the stated length, every position and arbitrary integer '
      'offsets the solver-driven search exhausted all paths of LineNumbersCalculator / pos_to_lineno_colno against an '
      'independent definition; error half on pinned skeletons. Right level: the kernel is small integer/string '
      'arithmetic where the rare inputs (newline adjacency, end position) are exactly what a solver enumerates.',
      'Trusts CrossHair/z3 models of str/int and bisect; bound on string length; the oracle in props/C20.py.',
      'DESIGN.md section 4 C20')
claim('C11',
      'Bounded-exhaustive symbolic execution of the real LatexTokenReader: for every Unicode string up to the stated '
      'length and each listed parsing-state configuration, in strict and tolerant token reading, all paths of the '
      'read loop were exhausted with the assertions reconstruction == input, strict advance, <= len(s) reads, '
      'peek == next without moving, move-back + re-read == same token. Right level: the failures (zero-width recovery '
      'token on a trailing escape character, a peek that moves) need one specific last character or a forbidden '
      'character, which the solver finds and sampling rarely does.',
      'Trusts CrossHair/z3 string models; bounds on length and the configuration list in props/C11.py.',
      'DESIGN.md section 4 C11')
claim('C05',
      'Bounded-exhaustive symbolic execution of the real strict parser: for every Unicode string up to the stated '
      'length (three contexts) and for pinned document skeletons with free holes, every path either returns or raises '
      'LatexWalkerParseError whose pos is an int inside the input with matching lineno/colno; and for 19 well-formed '
      'base documents a free character inserted at token boundaries makes the parse fail whenever it is an unmatched '
      'brace or math shift. Right level: the wrong-exception inputs are specific token adjacencies ("\\a$", an unknown '
      'control symbol as a single-token argument) that the solver enumerates through the branch structure.',
      'Trusts CrossHair/z3; bounds on length, the skeleton and base-document lists in props/C05.py and vlib/parsefam.py.',
      'DESIGN.md section 4 C05')
claim('C06',
      'Bounded-exhaustive symbolic execution of the real parser in tolerant mode under a step budget: for every Unicode '
      'string up to the stated length and pinned skeletons with a free hole, no exception, termination, a node list '
      'returned, and a structural dump identical to the strict parse whenever strict succeeds; for well-formed base '
      'documents followed by a stray closing token and free garbage, the top-level nodes of the valid prefix are '
      'returned unchanged. Right level: non-termination and total loss of output depend on the exact ending of the '
      'input (a trailing escape character, which token meets the error), which path-exhaustive search covers.',
      'Trusts CrossHair/z3; step budget 400+60(n+2)^2 token peeks stands for "terminates"; bounds and skeleton lists in '
      'props/C06.py.',
      'DESIGN.md section 4 C06')
claim('C01',
      'Bounded-exhaustive symbolic execution of the real strict parser with an arithmetic oracle on the source string: '
      'for every Unicode string up to the stated length (three contexts) and 41+ document skeletons with free holes '
      'covering every standard argument type, the top-level nodes tile the input, children nest in order without '
      'overlap, chars/comment text equals the source slice and the verbatim concatenation is the input; the '
      'nesting part also on tolerant parses. Right level: span arithmetic errors show only for particular adjacencies '
      '(whitespace/comment/paragraph next to a construct), which holes ranging over all Unicode enumerate.',
      'Trusts CrossHair/z3; bounds and skeleton list in props/C01.py / vlib/parsefam.py; tree walk over public attributes.',
      'DESIGN.md section 4 C01')
claim('C14',
      'Bounded-exhaustive symbolic execution of the real LatexContextDb over build histories: operation selectors '
      '(category kind, 8 placements, definition sets, unknown specs) are symbolic integers, so the solver-driven search '
      'enumerates every history of up to 3 additions and every pair of 8 derivations (extended_with / filtered_context) '
      'on top of 2 additions; after each history every lookup, test_for_specials, categories() and iter_*_specs() is '
      'compared with a reference model and with the database\'s own reported order; parents must answer as before; '
      'frozen databases must refuse changes. Right level: the defects are ordering slips visible only for particular '
      'placement sequences (insert_after on an appended category; filtering an auto-extended database).',
      'Trusts CrossHair/z3; reference model in props/C14.py written from the docstrings; bounded history length and name universe.',
      'DESIGN.md section 4 C14')
claim('C15',
      'Symbolic execution of the real read_latex_file / read_input_file / \\input handling against a modelled file system: '
      'os.path.realpath is an uninterpreted function whose answer for the candidate that exists is a symbolic string '
      '(pinned shape, free characters ranging over all Unicode), existence is given per candidate, open() records the resolved '
      'target; assertion: nothing outside realpath(dir) is ever opened or returned, and names resolving inside are read. '
      'Right level: the file system is environment, so the layout becomes the symbolic input; the failing layouts (a sibling '
      'directory whose name extends the directory name, <dir>.tex next to the directory, a completed name that is a symlink) '
      'are single points in that space. The model is validated on a real temporary directory tree on every run.',
      'Trusts the environment model in props/C15.py (realpath contract; exists/isfile follow links; no races); CrossHair/z3; '
      'bounded shapes of resolved targets.',
      'DESIGN.md section 4 C15')
