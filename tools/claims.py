claim('C20',
      'Bounded-exhaustive: for every Unicode string up to the stated length, every position and arbitrary integer '
      'offsets the solver-driven search exhausted all paths of LineNumbersCalculator / pos_to_lineno_colno against an '
      'independent definition; error half on pinned skeletons. Right level: the kernel is small integer/string '
      'arithmetic where the rare inputs (newline adjacency, end position) are exactly what a solver enumerates.',
      'Trusts CrossHair/z3 models of str/int and bisect; bound on string length; the oracle in props/C20.py.',
      'DESIGN.md section 4 C20')
