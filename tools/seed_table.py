#!/usr/bin/env python3
"""Prints the DESIGN.md section 8 table from /verif/seeded/*/meta.json"""
import glob, json, os
rows = []
for d in sorted(glob.glob('/verif/seeded/*')):
    m = json.load(open(os.path.join(d, 'meta.json')))
    notes = m.get('needs_to_manifest', '').replace('\n', ' ')
    rows.append((os.path.basename(d), m['property'], m['detected'], m.get('what_i_ran', '').replace('\n', ' '), notes[:260]))
print('| seeded change | property | detected | by which conditions / why not | what it is (from the seeder\'s notes) |')
print('|---|---|---|---|---|')
for r in rows:
    print('| %s | %s | %s | %s | %s |' % r)
print()
print('%d seeded changes, %d detected, %d partly, %d not detected' % (
    len(rows), sum(r[2] == 'yes' for r in rows), sum(r[2] == 'partly' for r in rows), sum(r[2] == 'no' for r in rows)))
