#!/usr/bin/env python3
"""Prints the DESIGN.md section 8 table from /verif/seeded/*/meta.json; with --write, replaces the text between the
<!-- seeded-table --> markers in DESIGN.md"""
import glob, json, os, re, sys
rows = []
for d in sorted(glob.glob('/verif/seeded/*')):
    m = json.load(open(os.path.join(d, 'meta.json')))
    notes = m.get('needs_to_manifest', '').replace('\n', ' ')
    notes = re.sub(r'\s+', ' ', notes)
    mm = re.match(r'Change: (.*?)(?= Breaks:| Needs:|$)', notes)
    what = (mm.group(1) if mm else notes)[:330].replace('|', '\\|')
    rows.append((os.path.basename(d), m['detected'], re.sub(r'\s+', ' ', m.get('what_i_ran', '')).replace('|', '\\|'), what))
out = ['| seeded change | detected | by which conditions / why not | what was changed (from the seeder\'s notes) |', '|---|---|---|---|']
for r in rows:
    out.append('| %s | %s | %s | %s |' % r)
out.append('')
out.append('%d seeded changes: %d detected, %d partly, %d not detected.' % (
    len(rows), sum(r[1] == 'yes' for r in rows), sum(r[1] == 'partly' for r in rows), sum(r[1] == 'no' for r in rows)))
text = '\n'.join(out)
if '--write' in sys.argv:
    p = '/verif/DESIGN.md'
    t = open(p).read()
    a, b = '<!-- seeded-table -->', '<!-- /seeded-table -->'
    i, j = t.index(a), t.index(b)
    t = t[:i + len(a)] + '\n' + text + '\n' + t[j:]
    open(p, 'w').write(t)
    print('written', len(rows))
else:
    print(text)
