#!/usr/bin/env python3
"""usage: record_batch.py <batch log>  -> prints per-seed outcome (prop, dir, demo ok, rc, first violations)"""
import re, sys
cur = None
out = []
for ln in open(sys.argv[1], errors='replace'):
    ln = ln.rstrip('\n')
    m = re.match(r'=== (C\d+) (\S+)', ln)
    if m:
        cur = dict(prop=m.group(1), dir=m.group(2), demo=None, rc=None, viol=[], summary='')
        out.append(cur)
        continue
    if cur is None:
        continue
    if ln.startswith('demo without='):
        cur['demo'] = ln[:60]
    elif ln.startswith('PATCH-DOES-NOT-APPLY'):
        cur['demo'] = 'PATCH-DOES-NOT-APPLY'
    elif ln.startswith('counterexample') and len(cur['viol']) < 3:
        cur['viol'].append(ln[15:260])
    elif re.match(r'C\d+ tier=', ln):
        cur['summary'] = ln[:120]
    elif ln.startswith('check rc='):
        cur['rc'] = ln[9:]
    elif ln.startswith('HARNESS-ERROR') and len(cur['viol']) < 3:
        cur['viol'].append(ln[:260])
for c in out:
    print(c['prop'], c['dir'].split('/')[-1], '|', c['demo'], '| rc', c['rc'], '|', c['summary'][c['summary'].find(':'):][:90])
    for v in c['viol']:
        print('     ', v)
