#!/bin/bash
# usage: tools/batch_seeds.sh <logfile> PROP:dir [PROP:dir ...]   (sequential)
LOG=$1; shift
for x in "$@"; do
  P=${x%%:*}; D=${x#*:}
  echo "=== $P $D" >> $LOG
  /verif/tools/try_seed.sh $P $D >> $LOG 2>&1
done
echo "=== DONE" >> $LOG
