#!/usr/bin/env python3
"""Regenerates MANIFEST.json from the table below (keeps it schema-valid)."""
import json, os, sys
HERE = os.path.dirname(os.path.dirname(os.path.abspath(__file__)))
sys.path.insert(0, HERE)

TEST_CMD = "cd /repo && /venv/bin/python -m pytest -ra -q -p no:cacheprovider --timeout=900 --continue-on-collection-errors"

# property -> (level text, level note, technique, design_ref)
CLAIMED = {}
NOT_APPLICABLE = {}

def claim(pid, text, note, ref):
    CLAIMED[pid] = dict(text=text, note=note, ref=ref)

ENABLED = None
THOROUGH = None
exec(open(os.path.join(HERE, 'tools', 'claims.py')).read())
if ENABLED is not None:
    for k in list(CLAIMED):
        if k not in ENABLED:
            del CLAIMED[k]

ALL = [json.loads(l)['id'] for l in open(os.path.join(HERE, 'properties.jsonl'))]
checks = []
for pid in ALL:
    if pid not in CLAIMED:
        continue
    c = CLAIMED[pid]
    checks.append(dict(
        property_id=pid,
        quick_cmd='./check %s --tier quick' % pid,
        **(dict(thorough_cmd='./check %s --tier thorough' % pid) if (THOROUGH is None or pid in THOROUGH) else {}),
        evidence_file='evidence/%s.json' % pid,
        replay_cmd_template='./check %s --replay {path}' % pid,
        engine='crosshair',
        level_claimed=dict(category='model_checking', text=c['text'], design_ref=c['ref']),
        level_note=c['note'],
        technique='bounded symbolic execution of the real pylatexenc code (CrossHair 0.0.110 + z3): per-path SMT '
                  'queries over symbolic str/int inputs; verdict = solver-exhausted path tree or replayed counterexample',
    ))
na = [dict(property_id=p, reason=NOT_APPLICABLE.get(p, 'check not built yet in this session; no claim is made'))
      for p in ALL if p not in CLAIMED]
m = dict(
    version=1,
    setup_cmd='./setup.sh',
    hooks=dict(guard='PYLATEXENC_VERIF', enable='none needed: no hooks in /repo; harnesses drive public API from /verif',
               baseline_off_cmd=TEST_CMD, source_commits=[], add_only=True),
    engines=[dict(name='crosshair', path='vlib/driver.py', serves_properties=[c['property_id'] for c in checks],
                  kind_free_text='CrossHair symbolic execution (z3) of harnesses in props/Cxx.py over /repo/pylatexenc; '
                                 'one OS process per condition, 16 in parallel; concrete replay in /venv/bin/python')],
    checks=checks,
    notes='See DESIGN.md. Exit 0 = all conditions confirmed or inconclusive-without-counterexample; exit 1 + VIOLATION '
          'line = replayed counterexample not listed in known_findings.json; exit 2 = harness error (nothing claimed).',
    not_applicable=na,
)
json.dump(m, open(os.path.join(HERE, 'MANIFEST.json'), 'w'), indent=1)
try:
    import jsonschema
    jsonschema.validate(m, json.load(open('/root/.vp/MANIFEST.schema.json')))
    print('MANIFEST valid;', len(checks), 'claimed,', len(na), 'not claimed')
except ImportError:
    print('written (jsonschema not available)')
