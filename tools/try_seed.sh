#!/bin/bash
# usage: tools/try_seed.sh <PROP> <dir with patch.diff demo.py> [check args...]
# Confirms the seeded change in a scratch worktree (tests pass, demo fails with / passes without), then runs the
# property's check against that worktree (VERIF_REPO) and prints the verdict.  /repo itself is not touched.
set -u
P=$1; D=$(readlink -f $2); shift 2
WT=/tmp/seedwt_$$
git -C /repo worktree add -q --detach $WT HEAD || exit 3
trap "git -C /repo worktree remove --force $WT" EXIT
cd $WT
cp $D/demo.py $WT/_demo.py
PYTHONPATH=$WT /venv/bin/python _demo.py >/dev/null 2>&1; a=$?
git apply $D/patch.diff || { echo "PATCH-DOES-NOT-APPLY"; exit 3; }
PYTHONPATH=$WT /venv/bin/python _demo.py > _demo.out 2>&1; b=$?
t=$(/venv/bin/python -m pytest -q -p no:cacheprovider -x 2>&1 | tail -1)
echo "demo without=$a with=$b tests: $t"
echo "demo says: $(tail -2 _demo.out | tr '\n' ' ')"
cd /verif
VERIF_STOP_ON_VIOLATION=${STOP:-1} VERIF_REPO=$WT ./check $P --tier ${TIER:-quick} "$@" > /tmp/seed_$$.log 2>&1; rc=$?
grep -E "^(VIOLATION|counterexample|KNOWN|INCONCLUSIVE|HARNESS|C[0-9]+ tier)" /tmp/seed_$$.log | cut -c1-400 | head -12
echo "check rc=$rc"
rm -f /tmp/seed_$$.log
