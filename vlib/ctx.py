"""Compact custom contexts (DESIGN.md 3.2).  Built from public API only; fresh objects per call."""
from pylatexenc.macrospec import (LatexContextDb, MacroSpec, EnvironmentSpec, SpecialsSpec,
                                  LatexEnvironmentBodyContentsParser)
from pylatexenc.latexnodes import (LatexArgumentSpec, ParsingStateDeltaEnterMathMode,
                                   ParsingStateDeltaLeaveMathMode, ParsingStateDelta, ParsingStateDeltaChained)
from pylatexenc.latexnodes.parsers import (LatexStandardArgumentParser, LatexVerbatimEnvironmentContentsParser)
import pylatexenc.latexnodes.parsers as _parsers_pkg
import sys

# signature table of CTX_S: macro name -> list of argument spec strings (for the harness renderers)
SIG = {
    'a': ['{'],
    'b': ['[', '{'],
    'c': ['*'],
    'd': [],
    'e': ['*', '[', '{'],
    'f': ['m', 'o', 's'],   # same parsers through the xparse spellings, other order
    'g': ['{', '{'],
    'p': ['t+'],
    'r': ['r()'],
    'q': ['d<>'],
    'v': ['v'],
    'h': ['{', 'd<>'],
}


def clear_parser_cache():
    """Determinism between CrossHair paths: the std-arg parser cache is module-level state."""
    m = sys.modules.get('pylatexenc.latexnodes.parsers._stdarg')
    d = getattr(m, '_std_arg_parser_instances', None)
    if isinstance(d, dict):
        d.clear()


def make_ctx_s(unknown=False, small=False):
    clear_parser_cache()
    db = LatexContextDb()
    macros = [MacroSpec(k, arguments_spec_list=list(v)) for k, v in SIG.items()
              if not small or k in 'abcdv']
    macros += [
        MacroSpec('t', arguments_spec_list=[LatexArgumentSpec('{', parsing_state_delta=ParsingStateDeltaLeaveMathMode())]),
        MacroSpec('m', arguments_spec_list=[LatexArgumentSpec('{', parsing_state_delta=ParsingStateDeltaEnterMathMode())]),
        # a text-mode argument followed by an inheriting one; a math-mode argument followed by optional + inheriting ones
        MacroSpec('u', arguments_spec_list=[LatexArgumentSpec('{', parsing_state_delta=ParsingStateDeltaLeaveMathMode()), '{']),
        MacroSpec('w', arguments_spec_list=[LatexArgumentSpec('{', parsing_state_delta=ParsingStateDeltaEnterMathMode()),
                                            '[', '{']),
        MacroSpec('\\', arguments_spec_list=[
            LatexArgumentSpec('*'),
            LatexArgumentSpec(LatexStandardArgumentParser('[', allow_pre_space=False))]),
    ]
    envs = [
        EnvironmentSpec('E'),
        EnvironmentSpec('F', arguments_spec_list=['[', '{']),
        EnvironmentSpec('M', body_parsing_state_delta=ParsingStateDeltaEnterMathMode()),
        # math body through a chained delta whose math switch is not the last element
        EnvironmentSpec('N', body_parsing_state_delta=ParsingStateDeltaChained([
            ParsingStateDeltaEnterMathMode(), ParsingStateDelta(set_attributes=dict(enable_specials=True))])),
        EnvironmentSpec('V', make_body_parser=lambda token, nodeargd, arg_parsing_state_delta:
                        LatexVerbatimEnvironmentContentsParser(environment_name='V')),
    ]
    specials = [SpecialsSpec('~'), SpecialsSpec('--'), SpecialsSpec('---'), SpecialsSpec('&'),
                SpecialsSpec('``'), SpecialsSpec("''"), SpecialsSpec('\n\n')]
    db.add_context_category('S', macros=macros, environments=envs, specials=specials)
    # single-character specials that are prefixes of the two-character ones live in a later category
    # (longest match must win across categories)
    db.add_context_category('S2', specials=[SpecialsSpec('`'), SpecialsSpec("'")])
    if unknown:
        db.set_unknown_macro_spec(MacroSpec(''))
        db.set_unknown_environment_spec(EnvironmentSpec(''))
    return db
