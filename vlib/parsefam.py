"""Shared input families for the parser-mechanics properties (C01, C05, C06, C10, C19, ...).

A skeleton is a concrete string in which '?' marks a free one-character hole (any Unicode character);
it becomes ONE symbolic string of exact length with the other positions pinned (DESIGN.md 3.7).
A literal question mark is never needed in skeletons.
"""
from vlib.ctx import make_ctx_s, clear_parser_cache

BS = '\\'


def get_ctx(name):
    """'S' / 'SU' / 'Ssmall' -> fresh compact context; 'D' -> None (LatexWalker default database)."""
    if name == 'S':
        return make_ctx_s(False)
    if name == 'SU':
        return make_ctx_s(True)
    if name == 'Ssmall':
        return make_ctx_s(False, small=True)
    if name == 'SUsmall':
        return make_ctx_s(True, small=True)
    clear_parser_cache()
    return None


def skel_pre(sk, var='s'):
    return ['len(%s) == %d' % (var, len(sk))] + ['%s[%d] == chr(%d)' % (var, i, ord(ch))
                                                  for i, ch in enumerate(sk) if ch != '?']


def skel_fill(sk, ch='x'):
    return sk.replace('?', ch)


# (name, skeleton, context)  -- CTX_S names: a:{  b:[{  c:*  d:-  e:*[{  f:mos  g:{{  p:t+  r:r()  q:d<>  v:v
#                               t:text{  m:math{  \\:*[(nospace)   envs E, F[{ , M(math), V(verbatim)
SKELETONS_S = [
    ('a_arg', BS + 'a?{?}?'),
    ('a_tok', BS + 'a???'),
    ('b_full', BS + 'b?[?]{?}?'),
    ('b_sp', BS + 'b[?]?{?}'),
    ('b_noopt', BS + 'b?{?}?'),
    ('c_star', BS + 'c?*?'),
    ('c_end', 'x' + BS + 'c??'),
    ('d_bare', BS + 'd??' + BS + 'd'),
    ('e_full', BS + 'e*?[?]{?}'),
    ('e_part', BS + 'e?[?]?'),
    ('f_mos', BS + 'f{?}?[?]?*'),
    ('g_two', BS + 'g{?}?{?}'),
    ('g_toks', BS + 'g????'),
    ('p_plus', BS + 'p?+?'),
    ('r_paren', BS + 'r?(?)?'),
    ('q_angle', BS + 'q?<?>?'),
    ('q_absent', BS + 'q???'),
    ('v_bar', BS + 'v?|?|?'),
    ('v_brace', BS + 'v{??}?'),
    ('t_math', '$' + BS + 't{?$?$}?$'),
    ('m_arg', BS + 'm{?}?$?$'),
    ('nl_star', BS + BS + '?*?[?]'),
    ('nl_opt', BS + BS + '?[?]?'),
    ('env_E', BS + 'begin{E}?' + BS + 'end{E}?'),
    ('env_E2', '?' + BS + 'begin{E}??' + BS + 'end{E}'),
    ('env_F', BS + 'begin{F}?[?]{?}' + BS + 'end{F}'),
    ('env_F2', BS + 'begin{F}?{?}?' + BS + 'end{F}'),
    ('env_M', BS + 'begin{M}?$' + BS + 'end{M}?'),
    ('env_V', BS + 'begin{V}??' + BS + 'end{V}?'),
    ('math_d', '$?$?$?$'),
    ('math_dd', '$$?$$?$?$'),
    ('math_p', BS + '(?' + BS + ')?' + BS + '[?' + BS + ']'),
    ('comment', '?%?\n?'),
    ('comment_par', '%?\n?\n?'),
    ('par', '?\n?\n?'),
    ('group', '{?}?{?'),
    ('dashes', '?--?-?'),
    ('quotes', "?``?''"),
    ('nest_optgrp', BS + 'b[{?]?}]{?}'),
    ('nest_optopt', BS + 'b[?[?]]{?}'),
    ('nest_macgrp', '{' + BS + 'a{?}?}?'),
    ('nest_argmac', BS + 'a' + BS + 'b?{?}'),
    ('cmt_arg', BS + 'a%?\n?{?}'),
]

SKELETONS_D = [
    ('d_textbf', BS + 'textbf?{?}?'),
    ('d_frac', BS + 'frac??'),
    ('d_item', BS + 'item?[?]?'),
    ('d_verb', BS + 'verb?|?|'),
    ('d_sqrt', BS + 'sqrt?[?]{?}'),
    ('d_env', BS + 'begin{center}?' + BS + 'end{center}'),
    ('d_align', BS + 'begin{align}?$' + BS + 'end{align}'),
    ('d_nl', 'a' + BS + BS + '?[?]'),
]


def holes(sk):
    return sk.count('?')


def limit_holes(sk, keep, fill='x'):
    """Keep the holes whose ordinal is in `keep` free, pin the others to `fill`."""
    out = []
    k = 0
    for ch in sk:
        if ch == '?':
            out.append('?' if k in keep else fill)
            k += 1
        else:
            out.append(ch)
    return ''.join(out)


def hole_variants(sk, width=2):
    """Sliding windows of `width` adjacent free holes: [(tag, skeleton)]."""
    n = holes(sk)
    if n <= width:
        return [('all', sk)]
    return [('h%d' % k, limit_holes(sk, set(range(k, k + width)))) for k in range(0, n - width + 1)]
