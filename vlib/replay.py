"""Concrete replay of one harness body call in a fresh interpreter: reads JSON on stdin."""
import importlib
import json
import logging
import sys
import traceback

logging.disable(logging.CRITICAL)


def main():
    rq = json.loads(sys.stdin.read())
    from vlib.common import Violation
    mod = importlib.import_module('props.' + rq['prop'])
    if hasattr(mod, 'warmup'):
        try:
            mod.warmup()
        except Violation:
            pass
    ns = dict(vars(mod))
    args = rq['args']
    if hasattr(mod, 'decode_args'):
        args = mod.decode_args(args)
    ns.update(args)
    repeat = int(rq.get('repeat', 1))
    nbefore = 0
    for b in rq.get('before', []):
        # earlier calls of the same body on other inputs of the same condition (state left behind by them is what a
        # counterexample found in a long-lived process may depend on); their own outcome is not judged here
        nsb = dict(ns)
        nsb.update(mod.decode_args(b) if hasattr(mod, 'decode_args') else b)
        try:
            eval(rq['call'], nsb)
        except BaseException:  # noqa
            pass
        nbefore += 1
    try:
        for k in range(repeat):
            try:
                reached = eval(rq['call'], ns)
            except Violation as e:
                if k == 0 and nbefore:
                    raise Violation('only after %d earlier call(s) on other inputs in the same process (state kept between '
                                    'calls): %s' % (nbefore, e))
                if k == 0:
                    raise
                raise Violation('only after %d earlier call(s) in the same process (state kept between calls): %s' % (k, e))
        out = dict(outcome='ok', reached=bool(reached), detail='')
    except Violation as e:
        out = dict(outcome='violation', detail=str(e)[:2000])
    except BaseException as e:  # noqa
        out = dict(outcome='exception', detail=''.join(traceback.format_exception_only(type(e), e))[:600]
                   + ' @ ' + ' <- '.join('%s:%d' % (f.name, f.lineno)
                                         for f in traceback.extract_tb(e.__traceback__)[-4:]))
    print('REPLAY ' + json.dumps(out))


main()
