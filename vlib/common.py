"""Shared harness helpers (importable under both /venv python and the CrossHair overlay)."""


class Violation(Exception):
    """Raised by a harness body when the property is broken on the current input."""


class BudgetExceeded(BaseException):
    """Raised by the step-budget wrapper; BaseException so pylatexenc's own handlers do not swallow it."""


def fail(msg):
    raise Violation(msg)


def require(cond, msg):
    if not cond:
        raise Violation(msg)
