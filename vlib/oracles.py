"""Shared oracles: tree walk over public attributes, structural dump, span checks, step budget."""
from vlib.common import Violation, BudgetExceeded, require
from pylatexenc.latexnodes import nodes as N
from pylatexenc.latexnodes import LatexTokenReader
from pylatexenc.latexwalker import LatexWalker, LatexWalkerParseError
from pylatexenc.latexnodes.parsers import LatexGeneralNodesParser


def is_list(x):
    return isinstance(x, (N.LatexNodeList, list, tuple))


def node_children(n):
    """Children of a node in document order through public attributes: arguments first, then body."""
    out = []
    nodeargd = getattr(n, 'nodeargd', None)
    if nodeargd is not None and getattr(nodeargd, 'argnlist', None) is not None:
        for a in nodeargd.argnlist:
            out.append(a)
    if isinstance(n, (N.LatexGroupNode, N.LatexEnvironmentNode, N.LatexMathNode)):
        nl = n.nodelist
        if nl is not None:
            out.append(nl)
    return out


def kind(n):
    if n is None:
        return 'None'
    if is_list(n):
        return 'list'
    return type(n).__name__.replace('Latex', '').replace('Node', '')


def dump(n):
    """Canonical structural dump (kinds, spans, names, delimiters, text, math flags), recursively."""
    if n is None:
        return None
    if is_list(n):
        items = list(n.nodelist) if isinstance(n, N.LatexNodeList) else list(n)
        return ['list', getattr(n, 'pos', None), getattr(n, 'pos_end', None)] + [dump(x) for x in items]
    r = [kind(n), n.pos, n.pos_end]
    if isinstance(n, N.LatexCharsNode):
        r.append(n.chars)
    elif isinstance(n, N.LatexCommentNode):
        r += [n.comment, n.comment_post_space]
    elif isinstance(n, N.LatexGroupNode):
        r.append(tuple(n.delimiters) if n.delimiters is not None else None)
    elif isinstance(n, N.LatexMacroNode):
        r += [n.macroname, n.macro_post_space]
    elif isinstance(n, N.LatexEnvironmentNode):
        r.append(n.environmentname)
    elif isinstance(n, N.LatexSpecialsNode):
        r.append(n.specials_chars)
    elif isinstance(n, N.LatexMathNode):
        r += [n.displaytype, tuple(n.delimiters) if n.delimiters is not None else None]
    ps = getattr(n, 'parsing_state', None)
    if ps is not None:
        r.append(('math', bool(ps.in_math_mode), ps.math_mode_delimiter))
    r.append([dump(c) for c in node_children(n)])
    return r


def check_span_tree(s, n, lo, hi, strict=True):
    """n (node or list) lies in [lo,hi]; children inside, ordered, non-overlapping; text matches source.
    Returns the number of nodes visited."""
    if n is None:
        return 0
    count = 0
    if is_list(n):
        items = list(n.nodelist) if isinstance(n, N.LatexNodeList) else list(n)
        p = lo
        lp, lpe = getattr(n, 'pos', None), getattr(n, 'pos_end', None)
        if lp is not None and lpe is not None:
            require(lo <= lp <= lpe <= hi, 'node list span outside its parent')
            p = lp
            hi = lpe
        for x in items:
            if x is None:
                continue
            require(x.pos is not None and x.pos_end is not None, 'node without position')
            require(p <= x.pos, 'sibling nodes overlap or are out of order')
            require(x.pos_end <= hi, 'node extends beyond its list/parent span')
            count += check_span_tree(s, x, x.pos, x.pos_end, strict)
            p = x.pos_end
        return count
    require(n.pos is not None and n.pos_end is not None, 'node without position')
    require(lo <= n.pos <= n.pos_end <= hi, 'node span outside parent span')
    count = 1
    if isinstance(n, N.LatexCharsNode) and strict:
        require(n.chars == s[n.pos:n.pos_end], 'chars node text differs from its source slice')
    if isinstance(n, N.LatexCommentNode) and strict:
        require(s[n.pos:n.pos_end] == '%' + n.comment + n.comment_post_space,
                'comment node text differs from its source slice')
    if strict:
        require(n.latex_verbatim() == s[n.pos:n.pos_end], 'latex_verbatim() is not the source slice')
    p = n.pos
    for c in node_children(n):
        if c is None:
            continue
        cp, cpe = getattr(c, 'pos', None), getattr(c, 'pos_end', None)
        if is_list(c) and cp is None and cpe is None:
            # empty list (no position information): nothing to place
            count += check_span_tree(s, c, p, n.pos_end, strict)
            continue
        require(cp is not None and cpe is not None, 'child without position')
        require(p <= cp, 'children overlap or are out of document order')
        require(cpe <= n.pos_end, 'child extends beyond parent')
        count += check_span_tree(s, c, cp, cpe, strict)
        p = cpe
    return count


def gap_is_blank(s, a, b):
    """s[a:b] holds only whitespace and comments"""
    i = a
    while i < b:
        c = s[i]
        if c.isspace():
            i += 1
        elif c == '%':
            while i < b and s[i] != '\n':
                i += 1
        else:
            return False
    return True


def check_macro_extent(s, n):
    """a macro call node stands for its control sequence and its arguments only: between and after its arguments there is
    nothing but whitespace and comments (contexts whose arguments are delimited group nodes or single tokens)"""
    if n is None:
        return
    if is_list(n):
        for x in n:
            check_macro_extent(s, x)
        return
    kids = [c for c in node_children(n) if c is not None and getattr(c, 'pos', None) is not None]
    if isinstance(n, N.LatexMacroNode):
        head_end = n.pos + 1 + len(n.macroname)
        p = head_end
        for c in kids:
            require(gap_is_blank(s, p, c.pos), 'macro call node swallows source text that is not one of its arguments')
            p = c.pos_end
        require(gap_is_blank(s, p, n.pos_end), 'macro call node extends over source text after its last argument')
    for c in kids:
        check_macro_extent(s, c)


def check_tiling(s, nodelist):
    """Top-level nodes tile [0, len(s)) exactly and reproduce the input."""
    p = 0
    for x in nodelist:
        require(x is not None, 'None node at top level of a strict parse')
        require(x.pos == p, 'gap or overlap between top-level nodes')
        require(x.pos_end >= x.pos, 'negative-length node')
        p = x.pos_end
    require(p == len(s), 'top-level nodes do not cover the whole input')
    require(''.join(x.latex_verbatim() for x in nodelist) == s, 'verbatim concatenation differs from the input')
    require(nodelist.latex_verbatim() == s if hasattr(nodelist, 'latex_verbatim') else True,
            'node list latex_verbatim() differs from the input')


class StepBudget(object):
    """Counting wrapper on the public LatexTokenReader.peek_token / next_token (DESIGN.md 3.4)."""

    def __init__(self, n):
        self.limit = 400 + 60 * (n + 2) * (n + 2)
        self.count = 0

    def __enter__(self):
        self._orig = LatexTokenReader.peek_token
        budget = self
        orig = self._orig

        def peek_token(self_, parsing_state):
            budget.count += 1
            if budget.count > budget.limit:
                raise BudgetExceeded()
            return orig(self_, parsing_state)
        LatexTokenReader.peek_token = peek_token
        return self

    def __exit__(self, *a):
        LatexTokenReader.peek_token = self._orig
        return False


def parse(s, ctx=None, tolerant=False, budget=True, **kw):
    """parse_content(LatexGeneralNodesParser()) under the step budget.  ctx=None -> default context."""
    if ctx is not None:
        kw['latex_context'] = ctx
    w = LatexWalker(s, tolerant_parsing=tolerant, **kw)
    if not budget:
        return w.parse_content(LatexGeneralNodesParser())[0]
    try:
        with StepBudget(len(s)):
            return w.parse_content(LatexGeneralNodesParser())[0]
    except BudgetExceeded:
        raise Violation('parse did not finish within the step budget (non-termination)')
