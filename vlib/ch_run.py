import sys, time, json
import z3
import crosshair.statespace as ss
import crosshair.main as chmain

stats = {'paths': 0, 'solver_checks': 0, 'solver_s': 0.0}
_orig_init = ss.StateSpace.__init__
def _init(self, *a, **k):
    stats['paths'] += 1
    return _orig_init(self, *a, **k)
ss.StateSpace.__init__ = _init
_orig_check = z3.Solver.check
def _check(self, *a):
    t = time.perf_counter()
    try:
        return _orig_check(self, *a)
    finally:
        stats['solver_checks'] += 1
        stats['solver_s'] += time.perf_counter() - t
z3.Solver.check = _check


def _install_fast_format():
    """Exact fast path: str.format / str % with fully concrete plain arguments is the real CPython operation
    (CrossHair otherwise interprets string.Formatter in traced Python and adds decision points)."""
    import crosshair.core_and_libs  # noqa: registers the stock patches
    import crosshair.core as core
    from crosshair.tracers import NoTracing
    plain = (str, int, float, bool, type(None))

    def concrete(x, depth=0):
        t = type(x)
        if t in plain:
            return True
        if (t is tuple or t is list) and depth < 3:
            return all(concrete(y, depth + 1) for y in x)
        if t is dict and depth < 3:
            return all(concrete(k, depth + 1) and concrete(v, depth + 1) for k, v in x.items())
        return False

    stock_format = core._PATCH_REGISTRATIONS.get(str.format)
    stock_mod = core._PATCH_REGISTRATIONS.get(str.__mod__)

    def fast_format(self, /, *a, **kw):
        with NoTracing():
            if type(self) is str and concrete(a) and concrete(kw):
                return str.format(self, *a, **kw)
        return stock_format(self, *a, **kw)

    def fast_mod(self, other):
        with NoTracing():
            if isinstance(self, str) and type(self).__mod__ in (str.__mod__,) and concrete(other):
                return str.__mod__(self, other)
            if isinstance(self, str) and concrete(other) and concrete(str(self)):
                return str.__mod__(str.__str__(self), other)
        return stock_mod(self, other)

    if stock_format is not None:
        core._PATCH_REGISTRATIONS[str.format] = fast_format
    if stock_mod is not None:
        core._PATCH_REGISTRATIONS[str.__mod__] = fast_mod


import os
if os.environ.get('VERIF_FAST_FORMAT', '1') == '1':
    _install_fast_format()
t0 = time.time()
try:
    chmain.main(sys.argv[1:])
except SystemExit as e:
    rc = e.code
stats['wall_s'] = time.time() - t0
print("CHSTATS " + json.dumps(stats))
sys.exit(rc)
