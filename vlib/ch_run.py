import sys, time, json
import z3
import crosshair.statespace as ss
import crosshair.main as chmain

stats = {'paths': 0, 'solver_checks': 0, 'solver_s': 0.0}
_orig_init = ss.StateSpace.__init__
def _init(self, *a, **k):
    stats['paths'] += 1
    return _orig_init(self, *a, **k)
ss.StateSpace.__init__ = _init
_orig_check = z3.Solver.check
def _check(self, *a):
    t = time.perf_counter()
    try:
        return _orig_check(self, *a)
    finally:
        stats['solver_checks'] += 1
        stats['solver_s'] += time.perf_counter() - t
z3.Solver.check = _check
t0 = time.time()
try:
    chmain.main(sys.argv[1:])
except SystemExit as e:
    rc = e.code
stats['wall_s'] = time.time() - t0
print("CHSTATS " + json.dumps(stats))
sys.exit(rc)
